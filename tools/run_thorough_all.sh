#!/bin/sh
# Run every thorough tier once, end to end; evidence to a scratch dir so that
# the committed evidence stays the one written by the quick commands.
cd /verif
mkdir -p /verif/.work/thorough-ev
for id in ${THOROUGH_IDS:-C06 C02 C03 C05 C12 C11 C04 C14 C10 C01 C07 C09 C15 C16 C17 C20 C19 C18 C08 C13}; do
  start=$(date +%s)
  VERIF_EVIDENCE_DIR=/verif/.work/thorough-ev VERIF_REPLAY_DIR=/verif/.work/thorough-ev/replays VERIF_JOBS=${TJOBS:-16} ./vf $id --tier thorough > /verif/.work/thorough-$id.out 2>&1
  rc=$?
  end=$(date +%s)
  echo "$id rc=$rc wall=$((end-start))s $(grep -m1 'tier=thorough' /verif/.work/thorough-$id.out | cut -c1-170)" >> /verif/.work/thorough.log
done
