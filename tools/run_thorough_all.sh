#!/bin/sh
# Run every thorough tier once, end to end (sizing); evidence to a scratch dir.
cd /verif
for id in C13 C08 C18 C19 C11 C14 C01 C09 C03 C04 C17 C02 C07 C12 C20 C10 C15 C05 C16 C06; do
  start=$(date +%s)
  VERIF_EVIDENCE_DIR=/verif/.work/thorough-ev VERIF_REPLAY_DIR=/verif/.work/thorough-ev/replays VERIF_JOBS=${TJOBS:-8} ./vf $id --tier thorough > /verif/.work/thorough-$id.out 2>&1
  rc=$?
  end=$(date +%s)
  echo "$id rc=$rc wall=$((end-start))s $(head -1 /verif/.work/thorough-$id.out | cut -c1-160)" >> /verif/.work/thorough.log
done
