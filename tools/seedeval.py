#!/usr/bin/env python3
"""
tools/seedeval.py <out-dir> <n> <seed-name> <check-id> [<check-id> ...]

1. confirm a seeded change in a scratch worktree (tests pass with it, demo
   fails with it and passes without it);
2. keep it as /verif/seeded/<seed-name>/ (patch.diff, demo.py, meta.json);
3. apply it to /repo, run the given quick checks, undo it straight away;
4. record which checks reported a VIOLATION.
"""
import json
import os
import shutil
import subprocess
import sys
import time

out_dir, n, name = sys.argv[1], sys.argv[2], sys.argv[3]
checks = sys.argv[4:]
patch = os.path.join(out_dir, f'patch{n}.diff')
demo = os.path.join(out_dir, f'demo{n}.py')
meta = json.load(open(os.path.join(out_dir, f'meta{n}.json')))
wt = f'/tmp/seedeval-{name}'


def sh(cmd, **kw):
    return subprocess.run(cmd, shell=True, capture_output=True, text=True,
                          **kw)


ran = []
sh(f'git -C /repo worktree remove --force {wt}')
r = sh(f'git -C /repo worktree add --detach {wt} HEAD')
assert r.returncode == 0, r.stderr
try:
    r = sh(f'git -C {wt} apply {patch}')
    applies = r.returncode == 0
    ran.append(f'git apply patch.diff -> {r.returncode}')
    r = sh(f'cd {wt} && /venv/bin/python -m pytest -q -p no:cacheprovider '
           '2>&1 | tail -1')
    tests_pass = ' passed' in r.stdout and 'failed' not in r.stdout
    ran.append(f'pytest with patch: {r.stdout.strip()}')
    r = sh(f'cd {wt} && PYTHONPATH={wt} timeout 300 /venv/bin/python {demo}')
    demo_fails = r.returncode != 0
    ran.append(f'demo with patch: exit {r.returncode}: '
               f'{(r.stdout + r.stderr).strip()[-300:]}')
    sh(f'git -C {wt} checkout -- .')
    r = sh(f'cd {wt} && PYTHONPATH={wt} timeout 300 /venv/bin/python {demo}')
    demo_ok = r.returncode == 0
    ran.append(f'demo without patch: exit {r.returncode}')
finally:
    sh(f'git -C /repo worktree remove --force {wt}')
confirmed = applies and tests_pass and demo_fails and demo_ok
print(name, 'confirmed' if confirmed else 'NOT CONFIRMED', ran)
if not confirmed:
    sys.exit(3)
dst = f'/verif/seeded/{name}'
os.makedirs(dst, exist_ok=True)
shutil.copy(patch, f'{dst}/patch.diff')
shutil.copy(demo, f'{dst}/demo.py')
detected = {}
# The checks run against a scratch worktree carrying the change (VERIF_REPO),
# which is equivalent to `git -C /repo apply` + undo but does not disturb
# other runs that use /repo; evidence of these runs goes to a scratch dir.
sh(f'git -C /repo worktree remove --force {wt}')
r = sh(f'git -C /repo worktree add --detach {wt} HEAD')
assert r.returncode == 0, r.stderr
r = sh(f'git -C {wt} apply {dst}/patch.diff')
assert r.returncode == 0, r.stderr
env = dict(os.environ, VERIF_REPO=wt, VERIF_EVIDENCE_DIR=f'/tmp/seedev-{name}',
           VERIF_REPLAY_DIR=f'/tmp/seedev-{name}/replays')
try:
    for c in checks:
        t0 = time.time()
        r = sh(f'cd /verif && ./vf {c} --tier quick', timeout=3600, env=env)
        viol = [ln for ln in r.stdout.splitlines()
                if ln.startswith('VIOLATION')]
        detected[c] = {'exit': r.returncode, 'violations': len(viol),
                       'wall_s': round(time.time() - t0)}
        msg = [ln for ln in r.stdout.splitlines() if 'violation:' in ln][:1]
        detected[c]['message'] = msg[0].strip()[:500] if msg else None
        if r.returncode == 2:
            detected[c]['harness_error'] = [
                ln[:300] for ln in r.stdout.splitlines()
                if ln.startswith('HARNESS-ERROR')][:2]
        ran.append(f'VERIF_REPO=<worktree with patch> ./vf {c} --tier quick: '
                   f'exit {r.returncode}, {len(viol)} VIOLATION lines')
finally:
    sh(f'git -C /repo worktree remove --force {wt}')
    shutil.rmtree(f'/tmp/seedev-{name}', ignore_errors=True)
meta.update({'confirmed_by_me': confirmed, 'what_i_ran': ran,
             'detected_by': detected,
             'caught': any(d['violations'] for d in detected.values())})
json.dump(meta, open(f'{dst}/meta.json', 'w'), indent=1)
print(name, json.dumps(detected))
