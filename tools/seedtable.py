#!/usr/bin/env python3
"""Regenerate seeded/README.md (which checks catch which seeded change)."""
import glob
import json
import os

rows = []
for d in sorted(glob.glob('/verif/seeded/*/')):
    mp = os.path.join(d, 'meta.json')
    if not os.path.exists(mp):
        continue
    m = json.load(open(mp))
    name = os.path.basename(d.rstrip('/'))
    det = m.get('detected_by', {})
    caught = [c for c, v in det.items() if v.get('violations')]
    missed = [c for c, v in det.items() if not v.get('violations')]
    rows.append((name, m.get('property'), m.get('summary', '')[:150],
                 m.get('needs', '')[:140], ', '.join(caught) or '-',
                 ', '.join(missed) or '-'))
out = ['# Seeded changes', '',
       'Each directory holds patch.diff, demo.py and meta.json (what was '
       'confirmed, what was run, per-check result).', '',
       '| change | property | what it does | needs | caught by (quick) | '
       'not caught by |', '|---|---|---|---|---|---|']
for r in rows:
    out.append('| ' + ' | '.join(x.replace('|', '/').replace('\n', ' ')
                                 for x in r) + ' |')
open('/verif/seeded/README.md', 'w').write('\n'.join(out) + '\n')
print('\n'.join(out))
