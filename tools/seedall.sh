#!/bin/sh
# tools/seedall.sh  "<outdir> <n> <name> <checks...>" ...   (sequential)
for spec in "$@"; do
  VERIF_JOBS=${SEED_JOBS:-6} python3 /verif/tools/seedeval.py $spec 2>&1 | tail -2
done
