"""
Token programs: symbolic token sequences fed to the real parser through the
real TokenIterator, and an independent reference recogniser of the
documented grammar (docs/notation.rst PEG + the robustness extensions of
docs/serialization.rst).
"""

from __future__ import annotations

KINDS = ['COMMENT', 'STRING', 'LPAREN', 'RPAREN', 'SLASH', 'ROLE', 'SYMBOL',
         'ALIGNMENT', 'UNEXPECTED']
KIDX = {k: i for i, k in enumerate(KINDS)}
(COMMENT, STRING, LPAREN, RPAREN, SLASH, ROLE, SYMBOL, ALIGNMENT,
 UNEXPECTED) = range(9)


class LazyKind:
    """A token type whose comparison with a type name is the (possibly
    symbolic) integer comparison k == index(name).  The parser therefore
    forks only where it actually inspects a token."""

    __slots__ = ('k',)

    def __init__(self, k):
        self.k = k

    def __eq__(self, other):
        if isinstance(other, str):
            return self.k == KIDX.get(other, -1)
        if isinstance(other, LazyKind):
            return self.k == other.k
        return NotImplemented

    def __ne__(self, other):
        if isinstance(other, str):
            return self.k != KIDX.get(other, -1)
        if isinstance(other, LazyKind):
            return self.k != other.k
        return NotImplemented

    __hash__ = None  # never hashed by the parser

    def __repr__(self):
        return f'K{self.k}'

    def __str__(self):
        return f'K{self.k}'


def make_tokens(kinds, texts, linenos, offsets):
    from penman._lexer import Token
    return [Token(LazyKind(k), t, ln, off, '<line>')
            for k, t, ln, off in zip(kinds, texts, linenos, offsets)]


# ---- reference recogniser ----------------------------------------------------


class RefReject(Exception):
    def __init__(self, lineno, offset):
        self.pos = (lineno, offset)


class RefParser:
    """Recursive descent over (kind, text, lineno, offset) lists.

    Node     <- '(' ')'                                   # empty (robustness)
              / '(' Symbol ('/' (Atom Align?)?)? Rel* ')' # label may be missing
    Rel      <- Role Align? (Node / Atom Align? / &Role / &')')   # target may
                                                          # be missing only
                                                          # before role or ')'
    Atom     <- Symbol / String
    Graph    <- Comment* Node
    On failure the position is that of the first token that does not fit, or
    the end of the last token when input runs out ((0, 0) for no input).
    """

    def __init__(self, kinds, texts, linenos, offsets):
        self.K, self.T, self.L, self.O = kinds, texts, linenos, offsets
        self.n = len(kinds)
        self.i = 0

    def _eoi(self):
        if self.i == 0:
            return RefReject(0, 0)
        j = self.i - 1
        return RefReject(self.L[j], self.O[j] + len(self.T[j]))

    def _at(self, j):
        return RefReject(self.L[j], self.O[j])

    def kind(self):
        if self.i >= self.n:
            raise self._eoi()
        return self.K[self.i]

    def take(self, *kinds):
        if self.i >= self.n:
            raise self._eoi()
        k = self.K[self.i]
        for want in kinds:
            if k == want:
                self.i += 1
                return self.T[self.i - 1]
        raise self._at(self.i)

    def graph(self):
        comments = []
        while self.kind() == COMMENT:
            comments.append(self.take(COMMENT))
        node = self.node()
        return comments, node

    def atom_with_alignment(self):
        text = self.take(SYMBOL, STRING)
        if self.kind() == ALIGNMENT:
            text = text + self.take(ALIGNMENT)
        return text

    def node(self):
        self.take(LPAREN)
        if self.kind() == RPAREN:
            self.take(RPAREN)
            return (None, [])
        var = self.take(SYMBOL)
        branches = []
        if self.kind() == SLASH:
            self.take(SLASH)
            k = self.kind()
            if k == SYMBOL or k == STRING:
                branches.append(('/', self.atom_with_alignment()))
            else:
                branches.append(('/', None))
        while self.kind() != RPAREN:
            role = self.take(ROLE)
            if self.kind() == ALIGNMENT:
                role = role + self.take(ALIGNMENT)
            k = self.kind()
            if k == SYMBOL or k == STRING:
                target = self.atom_with_alignment()
            elif k == LPAREN:
                target = self.node()
            elif k == ROLE or k == RPAREN:
                target = None
            else:
                raise self._at(self.i)
            branches.append((role, target))
        self.take(RPAREN)
        return (var, branches)


def ref_metadata(comment_texts):
    """'# ::key value ::key2 value2' -> {key: value, key2: value2}.
    Segments are introduced by '::' (right-most occurrences bind first, so
    ':::' reads as ':' + '::'); the key runs to the first space; the value
    is right-stripped.  For a repeated key the left-most wins; text before
    the first '::' is ignored."""
    md = {}
    for text in comment_texts:
        parts = text.rsplit('::')
        for part in reversed(parts[1:]):
            key, _, value = part.partition(' ')
            md[key] = value.rstrip()
    return md
