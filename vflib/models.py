"""
Model selector shared by the harnesses: the real penman model object plus the
independent RefModel used by the oracles, and role catalogues per model.
"""

from __future__ import annotations

from vflib.oracles import RefModel

# ':s-of' is a role by definition (like AMR's :consist-of) and ':s' is not;
# ':q[0-9]' is a pattern role.  No role collides with the inverse of another
# (a table defining both :r and :r-of has no unambiguous inversion).
CUSTOM_ROLES = {':r': {}, ':s-of': {}, ':q[0-9]': {}}
CUSTOM_NORMS = {':t-of': ':u', ':u-of': ':t'}
CUSTOM_REIFS = [(':r', 'have-r', ':ARG1', ':ARG2'),
                (':q1', 'have-q', ':ARG0', ':ARG1')]


def get(kind: str):
    """-> (real penman Model, RefModel)"""
    from penman.model import Model
    if kind == 'default':
        return Model(), RefModel()
    if kind == 'amr':
        from penman.models import amr
        return amr.model, RefModel(list(amr.roles), True,
                                   amr.normalizations)
    if kind == 'noop':
        from penman.models import noop
        return noop.model, RefModel((), False)
    if kind == 'custom':
        return (Model(roles=CUSTOM_ROLES, normalizations=CUSTOM_NORMS,
                      reifications=CUSTOM_REIFS),
                RefModel(list(CUSTOM_ROLES), True, CUSTOM_NORMS))
    raise KeyError(kind)


# canonical roles per model for tree programs (plain, inverted, and - where
# the model has them - roles that end in "-of" by definition)
ROLES = {
    'default': [':r', ':r-of', ':q'],
    'noop': [':r', ':r-of', ':q'],
    'amr': [':ARG0', ':ARG0-of', ':consist-of', ':consist-of-of', ':mod'],
    'custom': [':r', ':r-of', ':s-of', ':s-of-of', ':q1'],
}
