"""
Model selector shared by the harnesses: the real penman model object plus the
independent RefModel used by the oracles, and role catalogues per model.
"""

from __future__ import annotations

from vflib.oracles import RefModel

CUSTOM_ROLES = {':r': {}, ':r-of': {}, ':q[0-9]': {}}
CUSTOM_NORMS = {':s-of': ':t', ':t-of': ':s'}
CUSTOM_REIFS = [(':r', 'have-r', ':ARG1', ':ARG2'),
                (':q1', 'have-q', ':ARG0', ':ARG1')]


def get(kind: str):
    """-> (real penman Model, RefModel)"""
    from penman.model import Model
    if kind == 'default':
        return Model(), RefModel()
    if kind == 'amr':
        from penman.models import amr
        return amr.model, RefModel(list(amr.roles), True,
                                   amr.normalizations)
    if kind == 'noop':
        from penman.models import noop
        return noop.model, RefModel((), False)
    if kind == 'custom':
        # ':r-of' is a role by definition, ':q[0-9]' is a pattern role
        return (Model(roles=CUSTOM_ROLES, normalizations=CUSTOM_NORMS,
                      reifications=CUSTOM_REIFS),
                RefModel(list(CUSTOM_ROLES), True, CUSTOM_NORMS))
    raise KeyError(kind)


# canonical roles per model for tree programs (plain, inverted, and - where
# the model has them - roles that end in "-of" by definition)
ROLES = {
    'default': [':r', ':r-of', ':q'],
    'noop': [':r', ':r-of', ':q'],
    'amr': [':ARG0', ':ARG0-of', ':consist-of', ':consist-of-of', ':mod'],
    'custom': [':r', ':r-of', ':r-of-of', ':q1', ':q1-of'],
}
