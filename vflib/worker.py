"""
Worker process.

  run <module> <tier> <index> <outfile>   run one obligation, write JSON
  replay <module> <fn> <kwargs-file>      run a harness natively, print JSON
"""

import importlib
import json
import logging
import sys
import time

from vflib import engine


def parse_kwargs(text):
    return eval(text, {'__builtins__': {}, 'nan': float('nan'),
                       'inf': float('inf'), 'True': True, 'False': False,
                       'None': None})


def _jsonable(res):
    for key in ('failures', 'errors'):
        for rec in res.get(key, []):
            if 'kwargs' in rec:
                rec['kwargs_repr'] = repr(rec.pop('kwargs'))
    return res


def main(argv):
    logging.disable(logging.CRITICAL)  # penman logs warnings: environment
    sys.setrecursionlimit(10000)
    mode = argv[0]
    if mode == 'run':
        _, mod, tier, idx, out = argv
        m = importlib.import_module(mod)
        ob = m.obligations(tier)[int(idx)]
        fn = getattr(m, ob['fn'])
        t0 = time.time()
        if ob['kind'] == 'e2':
            import os
            budget = ob.get('timeout', 30) * float(
                os.environ.get('VERIF_TIME_SCALE', 1))
            if tier == 'thorough':
                budget = min(budget, float(
                    os.environ.get('VERIF_SLICE_CAP', '600')))
            res = engine.explore(
                fn, fixed=ob.get('fixed'), timeout=budget,
                per_path_timeout=ob.get('per_path_timeout', 20),
                validate_every=ob.get('validate_every', 1),
                max_failures=ob.get('max_failures', 4))
            # fixed args are part of the replay input
            for key in ('failures', 'errors'):
                for rec in res.get(key, []):
                    rec['kwargs'] = {**(ob.get('fixed') or {}),
                                     **rec['kwargs']}
        else:  # e1: the function decides its lemmas itself
            res = fn(**(ob.get('fixed') or {}))
            res.setdefault('failures', [])
            res.setdefault('errors', [])
            res['e1_queries'] = len(res.get('queries', []))
            if res['errors']:
                res['verdict'] = 'harness-error'
            elif res['failures']:
                res['verdict'] = 'counterexample'
            elif any(q['result'] not in ('unsat', 'sat-as-expected', 'ok')
                     for q in res.get('queries', [])):
                res['verdict'] = 'inconclusive(unknown)'
            else:
                res['verdict'] = 'confirmed'
            res['wall_s'] = round(time.time() - t0, 3)
        with open(out, 'w') as f:
            json.dump(_jsonable(res), f, default=repr)
        return 0
    if mode == 'replay':
        _, mod, fn_name, path = argv
        m = importlib.import_module(mod)
        fn = getattr(m, fn_name)
        with open(path) as f:
            kwargs = parse_kwargs(f.read())
        out = engine.run_native(fn, kwargs)
        print(json.dumps(out, default=repr))
        return 0
    raise SystemExit('bad mode')


if __name__ == '__main__':
    sys.exit(main(sys.argv[1:]))
