"""
Independent reference implementations (oracles), written from
docs/notation.rst, docs/structures.rst, docs/serialization.rst and
docs/command.rst.  Nothing here imports penman.
"""

from __future__ import annotations

BLANKS = ' \t\r\n\v\f'
NAME_EXCLUDED = BLANKS + '"()/:~'


def is_namechar(c: str) -> bool:
    # NameChar <- ![ \n\t\r\f\v"()/:~] .
    return not (c == ' ' or c == '\n' or c == '\t' or c == '\r' or c == '\f'
                or c == '\v' or c == '"' or c == '(' or c == ')' or c == '/'
                or c == ':' or c == '~')


def is_blank(c: str) -> bool:
    return (c == ' ' or c == '\t' or c == '\r' or c == '\n' or c == '\v'
            or c == '\f')


def is_digit(c: str) -> bool:
    return '0' <= c <= '9'


def is_ascii_letter(c: str) -> bool:
    return ('a' <= c <= 'z') or ('A' <= c <= 'Z')


def _scan_string(line: str, i: int) -> int:
    """line[i] == '"'.  Return the end (exclusive) of the string token that
    starts at i, or -1 if it is unterminated.  Inside a string every
    character is content; a backslash takes the next character with it
    (a backslash may not be followed by a newline)."""
    n = len(line)
    j = i + 1
    while j < n:
        c = line[j]
        if c == '"':
            return j + 1
        if c == '\\':
            if j + 1 < n and line[j + 1] != '\n':
                j += 2
                continue
            return -1
        j += 1
    return -1


def _scan_alignment(line: str, i: int) -> int:
    """line[i] == '~'.  Alignment <- '~' ([a-zA-Z] '.'?)? Digit+ (',' Digit+)*
    Return end of the longest match or -1."""
    n = len(line)
    j = i + 1
    if j < n and is_ascii_letter(line[j]):
        k = j + 1
        if k < n and line[k] == '.':
            k += 1
        # prefix is optional: it only counts if digits follow
        if k < n and is_digit(line[k]):
            j = k
        else:
            return -1
    if not (j < n and is_digit(line[j])):
        return -1
    while j < n and is_digit(line[j]):
        j += 1
    while j + 1 < n and line[j] == ',' and is_digit(line[j + 1]):
        j += 1
        while j < n and is_digit(line[j]):
            j += 1
    return j


def ref_lex_line(line: str, triples: bool = False):
    """Reference lexer for one line (no line terminator inside, except that a
    single trailing newline is tolerated).  Returns [(type, text, offset)].

    graph mode:  COMMENT STRING LPAREN RPAREN SLASH ROLE SYMBOL ALIGNMENT
                 UNEXPECTED
    triple mode: COMMENT STRING LPAREN RPAREN SYMBOL UNEXPECTED, where a
                 symbol is a maximal run of name characters (":" "/" "~"
                 are not name characters and are unexpected there).
    """
    out = []
    n = len(line)
    i = 0
    while i < n:
        c = line[i]
        if is_blank(c):
            i += 1
            continue
        if c == '#':
            j = n
            if j > i and line[j - 1] == '\n':
                j -= 1
            out.append(('COMMENT', line[i:j], i))
            i = j
            continue
        if c == '"':
            j = _scan_string(line, i)
            if j < 0:
                out.append(('UNEXPECTED', c, i))
                i += 1
            else:
                out.append(('STRING', line[i:j], i))
                i = j
            continue
        if c == '(':
            out.append(('LPAREN', c, i))
            i += 1
            continue
        if c == ')':
            out.append(('RPAREN', c, i))
            i += 1
            continue
        if not triples:
            if c == '/':
                out.append(('SLASH', c, i))
                i += 1
                continue
            if c == ':':
                j = i + 1
                while j < n and is_namechar(line[j]):
                    j += 1
                out.append(('ROLE', line[i:j], i))
                i = j
                continue
            if c == '~':
                j = _scan_alignment(line, i)
                if j < 0:
                    out.append(('UNEXPECTED', c, i))
                    i += 1
                else:
                    out.append(('ALIGNMENT', line[i:j], i))
                    i = j
                continue
        if is_namechar(c):
            j = i
            while j < n and is_namechar(line[j]):
                j += 1
            out.append(('SYMBOL', line[i:j], i))
            i = j
            continue
        out.append(('UNEXPECTED', c, i))
        i += 1
    return out


def ref_split_lines(text: str):
    """Universal-newline line splitting: only LF, CRLF and CR end a line.
    (The contract of a text file opened in Python's default newline mode,
    and what the property requires of string input.)  Terminators dropped."""
    lines = []
    cur = []
    i = 0
    n = len(text)
    while i < n:
        c = text[i]
        if c == '\r':
            lines.append(''.join(cur))
            cur = []
            if i + 1 < n and text[i + 1] == '\n':
                i += 1
        elif c == '\n':
            lines.append(''.join(cur))
            cur = []
        else:
            cur.append(c)
        i += 1
    if cur:
        lines.append(''.join(cur))
    return lines


# ---- roles, inversion ----------------------------------------------------------

class RefModel:
    """Reference notion of a semantic model: a set of role patterns (each a
    full-match regular expression, as documented for Model(roles=...)), the
    top and concept roles, and whether inverted roles are deinverted at all
    (False for the documented no-op model)."""

    def __init__(self, role_patterns=(), deinverts=True,
                 normalizations=None):
        import re
        self._res = [re.compile(p) for p in role_patterns]
        self.literals = (':TOP', ':instance')
        self.deinverts = deinverts
        self.normalizations = dict(normalizations or {})

    def defines(self, role: str) -> bool:
        if role in self.literals:
            return True
        for r in self._res:
            if r.fullmatch(role) and not role.endswith('\n'):
                return True
        return False

    def is_inverted(self, role: str) -> bool:
        return role.endswith('-of') and not self.defines(role)

    def invert_role(self, role: str) -> str:
        if self.is_inverted(role):
            return role[:len(role) - 3]
        return role + '-of'


def split_role_alignment(role: str):
    """':ARG0~e.1' -> (':ARG0', 'e.1')   (no alignment -> None)"""
    i = role.find('~')
    if i < 0:
        return role, None
    return role[:i], role[i + 1:]


def split_atom_alignment(atom):
    """Alignment suffix of an atom; a '~' inside a quoted string is content."""
    if not isinstance(atom, str) or '~' not in atom:
        return atom, None
    if atom.startswith('"'):
        j = len(atom) - 1
        while j >= 0 and atom[j] != '"':
            j -= 1
        # j is the closing quote
        if j + 1 < len(atom):
            return atom[:j + 1], atom[j + 1:].lstrip('~')
        return atom, None
    i = atom.find('~')
    return atom[:i], atom[i + 1:]


def parse_alignment(text):
    """'e.2,3' -> (prefix 'e.', (2, 3));  '1' -> (None, (1,))"""
    prefix = None
    if text and text[0].isalpha():
        k = 2 if text[1:2] == '.' else 1
        prefix, text = text[:k], text[k:]
    return prefix, tuple(int(x) for x in text.split(','))


def tree_variables(node):
    out = []
    var, branches = node
    if var is not None:
        out.append(var)
    for _, tgt in branches:
        if isinstance(tgt, tuple):
            out.extend(tree_variables(tgt))
    return out


def ref_interpret(node, model: RefModel):
    """Documented reading of a tree (docs/notation.rst, structures.rst):

    per node one instance triple (null concept, listed first, if none is
    written) and one triple per branch in depth-first order; an inverted
    role on a branch to a node or to another node's variable is deinverted
    once with source and target swapped (never when the model does not
    deinvert); an inverted role on a constant is left as written; alignment
    suffixes are not part of the triple.

    Returns (top, triples, info) where info[i] = dict(ctx=variable of the
    node whose branch wrote triple i, pushed=variable of the node the branch
    opened or None, role_aln, tgt_aln, written_inverted=bool).
    """
    variables = set(tree_variables(node))
    triples = []
    info = []

    def walk(n):
        var, branches = n
        has_concept = False
        for role, _ in branches:
            if split_role_alignment(role)[0] == '/':
                has_concept = True
        if not has_concept:
            triples.append((var, ':instance', None))
            info.append({'ctx': var, 'pushed': None, 'role_aln': None,
                         'tgt_aln': None, 'written_inverted': False})
        for role, tgt in branches:
            role, role_aln = split_role_alignment(role)
            if role == '/':
                role = ':instance'
            if isinstance(tgt, tuple):
                tvar = tgt[0]
                inv = model.deinverts and model.is_inverted(role)
                if inv:
                    triples.append((tvar, model.invert_role(role), var))
                else:
                    triples.append((var, role, tvar))
                info.append({'ctx': var, 'pushed': tvar,
                             'role_aln': role_aln, 'tgt_aln': None,
                             'written_inverted': inv})
                walk(tgt)
            else:
                tgt, tgt_aln = split_atom_alignment(tgt)
                inv = (role != ':instance' and tgt in variables
                       and model.deinverts and model.is_inverted(role))
                if inv:
                    triples.append((tgt, model.invert_role(role), var))
                else:
                    triples.append((var, role, tgt))
                info.append({'ctx': var, 'pushed': None,
                             'role_aln': role_aln, 'tgt_aln': tgt_aln,
                             'written_inverted': inv})

    walk(node)
    return node[0], triples, info


def weakly_connected(variables, triples, top):
    """Union-find: is every variable weakly connected to *top* through
    triples whose source and target are both variables?"""
    parent = {v: v for v in variables}

    def find(x):
        while parent[x] != x:
            parent[x] = parent[parent[x]]
            x = parent[x]
        return x

    for s, r, t in triples:
        if r == ':instance':
            continue
        if s in parent and isinstance(t, str) and t in parent:
            parent[find(s)] = find(t)
    if top not in parent:
        return False
    root = find(top)
    for v in variables:
        if find(v) != root:
            return False
    return True


def written_form(x):
    """Constants are compared by their written form."""
    return None if x is None or x == '' else str(x)
