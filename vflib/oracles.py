"""
Independent reference implementations (oracles), written from
docs/notation.rst, docs/structures.rst, docs/serialization.rst and
docs/command.rst.  Nothing here imports penman.
"""

from __future__ import annotations

BLANKS = ' \t\r\n\v\f'
NAME_EXCLUDED = BLANKS + '"()/:~'


def is_namechar(c: str) -> bool:
    # NameChar <- ![ \n\t\r\f\v"()/:~] .
    return not (c == ' ' or c == '\n' or c == '\t' or c == '\r' or c == '\f'
                or c == '\v' or c == '"' or c == '(' or c == ')' or c == '/'
                or c == ':' or c == '~')


def is_blank(c: str) -> bool:
    return (c == ' ' or c == '\t' or c == '\r' or c == '\n' or c == '\v'
            or c == '\f')


def is_digit(c: str) -> bool:
    return '0' <= c <= '9'


def is_ascii_letter(c: str) -> bool:
    return ('a' <= c <= 'z') or ('A' <= c <= 'Z')


def _scan_string(line: str, i: int) -> int:
    """line[i] == '"'.  Return the end (exclusive) of the string token that
    starts at i, or -1 if it is unterminated.  Inside a string every
    character is content; a backslash takes the next character with it
    (a backslash may not be followed by a newline)."""
    n = len(line)
    j = i + 1
    while j < n:
        c = line[j]
        if c == '"':
            return j + 1
        if c == '\\':
            if j + 1 < n and line[j + 1] != '\n':
                j += 2
                continue
            return -1
        j += 1
    return -1


def _scan_alignment(line: str, i: int) -> int:
    """line[i] == '~'.  Alignment <- '~' ([a-zA-Z] '.'?)? Digit+ (',' Digit+)*
    Return end of the longest match or -1."""
    n = len(line)
    j = i + 1
    if j < n and is_ascii_letter(line[j]):
        k = j + 1
        if k < n and line[k] == '.':
            k += 1
        # prefix is optional: it only counts if digits follow
        if k < n and is_digit(line[k]):
            j = k
        else:
            return -1
    if not (j < n and is_digit(line[j])):
        return -1
    while j < n and is_digit(line[j]):
        j += 1
    while j + 1 < n and line[j] == ',' and is_digit(line[j + 1]):
        j += 1
        while j < n and is_digit(line[j]):
            j += 1
    return j


def ref_lex_line(line: str, triples: bool = False):
    """Reference lexer for one line (no line terminator inside, except that a
    single trailing newline is tolerated).  Returns [(type, text, offset)].

    graph mode:  COMMENT STRING LPAREN RPAREN SLASH ROLE SYMBOL ALIGNMENT
                 UNEXPECTED
    triple mode: COMMENT STRING LPAREN RPAREN SYMBOL UNEXPECTED, where a
                 symbol is a maximal run of name characters (":" "/" "~"
                 are not name characters and are unexpected there).
    """
    out = []
    n = len(line)
    i = 0
    while i < n:
        c = line[i]
        if is_blank(c):
            i += 1
            continue
        if c == '#':
            j = n
            if j > i and line[j - 1] == '\n':
                j -= 1
            out.append(('COMMENT', line[i:j], i))
            i = j
            continue
        if c == '"':
            j = _scan_string(line, i)
            if j < 0:
                out.append(('UNEXPECTED', c, i))
                i += 1
            else:
                out.append(('STRING', line[i:j], i))
                i = j
            continue
        if c == '(':
            out.append(('LPAREN', c, i))
            i += 1
            continue
        if c == ')':
            out.append(('RPAREN', c, i))
            i += 1
            continue
        if not triples:
            if c == '/':
                out.append(('SLASH', c, i))
                i += 1
                continue
            if c == ':':
                j = i + 1
                while j < n and is_namechar(line[j]):
                    j += 1
                out.append(('ROLE', line[i:j], i))
                i = j
                continue
            if c == '~':
                j = _scan_alignment(line, i)
                if j < 0:
                    out.append(('UNEXPECTED', c, i))
                    i += 1
                else:
                    out.append(('ALIGNMENT', line[i:j], i))
                    i = j
                continue
        if is_namechar(c):
            j = i
            while j < n and is_namechar(line[j]):
                j += 1
            out.append(('SYMBOL', line[i:j], i))
            i = j
            continue
        out.append(('UNEXPECTED', c, i))
        i += 1
    return out


def ref_split_lines(text: str):
    """Universal-newline line splitting: only LF, CRLF and CR end a line.
    (The contract of a text file opened in Python's default newline mode,
    and what the property requires of string input.)  Terminators dropped."""
    lines = []
    cur = []
    i = 0
    n = len(text)
    while i < n:
        c = text[i]
        if c == '\r':
            lines.append(''.join(cur))
            cur = []
            if i + 1 < n and text[i + 1] == '\n':
                i += 1
        elif c == '\n':
            lines.append(''.join(cur))
            cur = []
        else:
            cur.append(c)
        i += 1
    if cur:
        lines.append(''.join(cur))
    return lines
