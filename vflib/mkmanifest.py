"""Regenerate /verif/MANIFEST.json from the property modules (run by hand
after adding a module; the file itself is committed)."""
import importlib
import json
import os

ROOT = os.path.dirname(os.path.dirname(os.path.abspath(__file__)))
NA_REASONS = {}
IDS = [f'C{i:02d}' for i in range(1, 21)]

BASE = ('cd /repo && /venv/bin/python -m pytest -ra -q -p no:cacheprovider '
        '--timeout=900 --continue-on-collection-errors')


def main():
    checks, na = [], []
    for pid in IDS:
        try:
            m = importlib.import_module('vflib.props.' + pid.lower())
        except ModuleNotFoundError:
            na.append({'property_id': pid, 'reason': NA_REASONS.get(
                pid, 'no check committed yet for this property (work in '
                'progress; see DESIGN.md section 5 for the plan)')})
            continue
        checks.append({
            'property_id': pid,
            'quick_cmd': f'./vf {pid} --tier quick',
            'thorough_cmd': f'./vf {pid} --tier thorough',
            'evidence_file': f'/verif/evidence/{pid}.json',
            'replay_cmd_template': f'./vf {pid} --replay {{path}}',
            'engine': 'vflib',
            'level_claimed': {
                'category': 'model_checking',
                'text': m.LEVEL_TEXT,
                'design_ref': f'DESIGN.md section 4 ({pid}); findings section 5',
            },
            'level_note': m.LEVEL_NOTE,
            'technique': m.TECHNIQUE,
        })
    manifest = {
        'version': 1,
        'setup_cmd': './setup.sh',
        'hooks': {
            'guard': 'GOODMAMI_PENMAN_VERIF',
            'enable': 'none needed: harnesses rebind module globals of the '
                      'imported penman package at run time; /repo carries '
                      'no instrumentation',
            'baseline_off_cmd': BASE,
            'source_commits': [],
            'add_only': True,
        },
        'engines': [
            {'name': 'vflib', 'path': '/verif/vflib',
             'serves_properties': [c['property_id'] for c in checks],
             'kind_free_text': 'E1: Python regexes of the live penman '
             'modules translated to z3 regular expressions, emptiness '
             'queries at unbounded length; E2: bounded symbolic execution of '
             'the real penman functions with CrossHair 0.0.110 (z3 decides '
             'every branch), counterexamples and one representative per path '
             're-run natively'},
        ],
        'checks': checks,
        'not_applicable': na,
        'notes': 'Solver-based checking only. exit 0 = no reproduced '
                 'violation; 1 = reproduced violation (VIOLATION line); '
                 '2 = harness error. Evidence lists every obligation with '
                 'its verdict (confirmed / inconclusive / not-run) and bound. '
                 'The thorough tier runs its obligations shallow-to-deep '
                 'under VERIF_WALL_BUDGET (default 900 s) with each slice '
                 'capped at VERIF_SLICE_CAP (default 600 CPU-s); raise both '
                 'to go deeper. known_findings.json: F4 (C11) is the only '
                 'open finding; 18 defects were repaired by fix: commits in '
                 '/repo. seeded/: 84 seeded changes with per-check results.',
    }
    with open(os.path.join(ROOT, 'MANIFEST.json'), 'w') as f:
        json.dump(manifest, f, indent=1)
    print('checks:', [c['property_id'] for c in checks])
    print('not_applicable:', [n['property_id'] for n in na])


if __name__ == '__main__':
    main()
