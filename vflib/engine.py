"""
E2 engine: bounded symbolic execution of harness functions over the real
penman code, on top of CrossHair's state space (z3 decides every
data-dependent branch), with

* shim S1 (negative slice bounds on symbolic strings),
* per-path native re-validation of one concrete representative,
* realised counterexamples written out for native replay,
* reachability marks (vacuity guard).

A *harness* is a plain function with annotated parameters.  It calls
``assume(c)`` for preconditions, ``mark(tag)`` at interesting places and
raises ``Violation`` when the property fails.  It must be deterministic in
its arguments so that the same function can be re-run natively.
"""

from __future__ import annotations

import inspect
import sys
import time
import traceback
from typing import Any, Callable, Dict, List, Optional

# --------------------------------------------------------------------------
# vocabulary shared by harnesses (usable natively, no crosshair needed)


class Violation(Exception):
    """The property under check does not hold for these inputs."""


class Skip(BaseException):
    """A harness precondition is not met (path is outside the claim)."""


_MARKS: List[str] = []
_CASE: List[Any] = []      # what the harness built from its symbolic inputs


def assume(cond) -> None:
    if not cond:
        raise Skip()


def mark(tag: str) -> None:
    _MARKS.append(tag)


def case(obj) -> None:
    """Record the structure a harness built (tree, triples, text, argv...)
    so that evidence samples show actual cases, not only program indices."""
    _CASE.append(obj)


def bound_int(x, lo: int, hi: int) -> None:
    """Precondition lo <= x < hi.  Under symbolic execution the constraint is
    added to the path condition directly (no fork, no dead paths); natively
    it is an ordinary assume."""
    try:
        from crosshair.tracers import NoTracing, is_tracing
    except ImportError:  # pragma: no cover
        assume(lo <= x < hi)
        return
    if not is_tracing():
        assume(lo <= x < hi)
        return
    with NoTracing():
        var = getattr(x, 'var', None) if type(x) is not int else None
        if var is not None:
            import z3
            from crosshair.statespace import context_statespace
            context_statespace().add(z3.And(var >= lo, var < hi))
            return
    assume(lo <= x < hi)


def chars_not_in(s, excluded: str) -> None:
    """Precondition: no character of *s* (len already bounded) is in
    *excluded*.  Symbolically this is one conjunction over code points added
    to the path condition without forking."""
    try:
        from crosshair.tracers import NoTracing, is_tracing
    except ImportError:  # pragma: no cover
        is_tracing = lambda: False  # noqa: E731
    if not is_tracing():
        for c in s:
            assume(c not in excluded)
        return
    codes = [ord(x) for x in excluded]
    n = len(s)
    for i in range(n):
        o = ord(s[i])
        done = False
        with NoTracing():
            var = getattr(o, 'var', None) if type(o) is not int else None
            if var is not None:
                import z3
                from crosshair.statespace import context_statespace
                context_statespace().add(z3.And(*[var != k for k in codes]))
                done = True
        if not done:
            assume(o not in codes)


def chars_below(s, limit: int) -> None:
    """Precondition: every code point of *s* is < limit (no fork)."""
    try:
        from crosshair.tracers import NoTracing, is_tracing
    except ImportError:  # pragma: no cover
        is_tracing = lambda: False  # noqa: E731
    if not is_tracing():
        for c in s:
            assume(ord(c) < limit)
        return
    for i in range(len(s)):
        o = ord(s[i])
        done = False
        with NoTracing():
            var = getattr(o, 'var', None) if type(o) is not int else None
            if var is not None:
                from crosshair.statespace import context_statespace
                context_statespace().add(var < limit)
                done = True
        if not done:
            assume(o < limit)


def require(cond, msg: str, *details) -> None:
    """Assert a property clause."""
    if not cond:
        raise Violation(msg + (' :: ' + ' | '.join(map(_safe_repr, details))
                               if details else ''))


def _safe_repr(x) -> str:
    try:
        return repr(x)
    except Exception as exc:  # pragma: no cover
        return f'<unrepr {type(x).__name__}: {exc}>'


# --------------------------------------------------------------------------
# native execution (replay / validation)


def run_native(fn: Callable, kwargs: Dict[str, Any]) -> Dict[str, Any]:
    """Run *fn* on concrete *kwargs*; classify the outcome."""
    del _MARKS[:]
    del _CASE[:]
    try:
        fn(**kwargs)
    except Skip:
        return {'outcome': 'skip', 'marks': list(_MARKS)}
    except Violation as v:
        return {'outcome': 'violation', 'message': str(v),
                'marks': list(_MARKS)}
    except RecursionError as exc:
        return {'outcome': 'error', 'message': 'RecursionError',
                'marks': list(_MARKS)}
    except Exception as exc:
        return {'outcome': 'error',
                'message': f'{type(exc).__name__}: {exc}',
                'trace': traceback.format_exc(limit=8),
                'marks': list(_MARKS)}
    return {'outcome': 'ok', 'marks': list(_MARKS)}


# --------------------------------------------------------------------------
# symbolic exploration

_SHIMMED = False


def install_shims() -> None:
    """Shim S1: CrossHair 0.0.110 mis-models negative slice bounds on a
    lazily concatenated symbolic string; rewrite them to len(s)+k."""
    global _SHIMMED
    if _SHIMMED:
        return
    from crosshair.libimpl import builtinslib as bl

    cls = bl.LazyIntSymbolicStr
    orig = cls.__getitem__

    def patched(self, i):
        if isinstance(i, slice):
            start, stop, step = i.start, i.stop, i.step
            changed = False
            if isinstance(start, int) and not isinstance(start, bool) \
                    and type(start) is int and start < 0:
                n = len(self)
                start = n + start
                if start < 0:
                    start = 0
                changed = True
            if isinstance(stop, int) and type(stop) is int and stop < 0:
                n = len(self)
                stop = n + stop
                if stop < 0:
                    stop = 0
                changed = True
            if changed:
                i = slice(start, stop, step)
        return orig(self, i)

    cls.__getitem__ = patched

    # solver-time accounting: wrap z3.Solver.check
    import z3
    _orig_check = z3.Solver.check

    def timed_check(self, *a, **k):
        t0 = time.perf_counter()
        try:
            return _orig_check(self, *a, **k)
        finally:
            SOLVER['time'] += time.perf_counter() - t0
            SOLVER['queries'] += 1

    z3.Solver.check = timed_check
    _SHIMMED = True


SOLVER = {'time': 0.0, 'queries': 0}


def symbolic_signature(fn: Callable, fixed: Dict[str, Any]):
    """Signature of the symbolic (non-fixed) parameters of a harness.  A
    harness may carry ``params_for(fixed) -> {name: type}`` to declare a
    parameter list that depends on the slice (e.g. n tokens)."""
    import typing
    if hasattr(fn, 'params_for'):
        decl = fn.params_for(fixed)
        return inspect.Signature([
            inspect.Parameter(n, inspect.Parameter.POSITIONAL_OR_KEYWORD,
                              annotation=t) for n, t in decl.items()])
    full_sig = inspect.signature(fn)
    hints = typing.get_type_hints(fn)
    params = []
    for name, p in full_sig.parameters.items():
        if name in fixed:
            continue
        params.append(p.replace(annotation=hints[name]))
    return inspect.Signature(params)


def explore(
    fn: Callable,
    fixed: Optional[Dict[str, Any]] = None,
    timeout: float = 60.0,
    per_path_timeout: float = 20.0,
    max_paths: int = 10 ** 9,
    max_failures: int = 1,
    validate_every: int = 1,
    keep_samples: int = 3,
) -> Dict[str, Any]:
    """Explore every feasible path of ``fn`` over its annotated, non-fixed
    parameters.  Returns counts, verdict and realised failures."""
    import crosshair.core_and_libs  # noqa: F401  (registers models)
    from crosshair.core import (
        ExceptionFilter,
        Patched,
        deep_realize,
        gen_args,
    )
    from crosshair.condition_parser import condition_parser
    from crosshair.options import AnalysisKind
    from crosshair.statespace import (
        CallAnalysis,
        RootNode,
        StateSpace,
        StateSpaceContext,
        VerificationStatus,
    )
    from crosshair.tracers import COMPOSITE_TRACER, NoTracing, ResumedTracing
    from crosshair.util import (CrossHairInternal, IgnoreAttempt,
                                UnexploredPath)
    from crosshair.copyext import CopyMode, deepcopyext
    from time import process_time

    install_shims()
    fixed = dict(fixed or {})
    sig = symbolic_signature(fn, fixed)

    def runner(bound):
        del _MARKS[:]
        del _CASE[:]
        try:
            return fn(**fixed, **bound.arguments)
        except Skip:
            raise IgnoreAttempt('precondition')

    res: Dict[str, Any] = {
        'paths': 0, 'ok': 0, 'skipped': 0, 'unknown': 0,
        'exhausted': False, 'failures': [], 'errors': [],
        'marks': {}, 'samples': [], 'validated': 0,
        'divergences': [], 'unknown_reasons': {},
    }
    search_root = RootNode()
    t_start = process_time()
    wall_start = time.time()
    SOLVER['time'] = 0.0
    SOLVER['queries'] = 0

    for i in range(1, max_paths + 1):
        itr_start = process_time()
        if itr_start > t_start + timeout:
            break
        space = StateSpace(
            execution_deadline=itr_start + per_path_timeout,
            model_check_timeout=per_path_timeout / 2,
            search_root=search_root,
        )
        stop = False
        with (
            condition_parser([AnalysisKind.PEP316]),
            Patched(),
            COMPOSITE_TRACER,
            NoTracing(),
            StateSpaceContext(space),
        ):
            status = None
            try:
                pre_args = gen_args(sig)
                args = deepcopyext(pre_args, CopyMode.REGULAR, {})
                with ExceptionFilter() as efilter, ResumedTracing():
                    runner(args)
                res['paths'] += 1
                if efilter.ignore:
                    res['skipped'] += 1
                    status = None
                elif efilter.user_exc is not None:
                    exc = efilter.user_exc[0]
                    with ResumedTracing():
                        space.detach_path()
                        concrete = deep_realize(pre_args)
                        msg = deep_realize(str(exc))
                    kw = dict(concrete.arguments)
                    rec = {'kwargs': kw, 'message': msg,
                           'exc_type': type(exc).__name__}
                    if isinstance(exc, Violation):
                        res['failures'].append(rec)
                    else:
                        rec['trace'] = ''.join(
                            efilter.user_exc[1].format()[-6:])
                        res['errors'].append(rec)
                    status = VerificationStatus.REFUTED
                    if len(res['failures']) + len(res['errors']) \
                            >= max_failures:
                        stop = True
                else:
                    marks = list(_MARKS)
                    cases = list(_CASE)
                    res['ok'] += 1
                    for m in marks:
                        res['marks'][m] = res['marks'].get(m, 0) + 1
                    need_sample = len(res['samples']) < keep_samples
                    if need_sample or (validate_every
                                       and res['ok'] % validate_every == 0):
                        with ResumedTracing():
                            space.detach_path()
                            concrete = deep_realize(pre_args)
                        kw = dict(concrete.arguments)
                        # native re-run of this path's representative
                        nat = run_native(fn, {**fixed, **kw})
                        res['validated'] += 1
                        if nat['outcome'] == 'violation':
                            res['failures'].append(
                                {'kwargs': kw, 'message': nat['message'],
                                 'exc_type': 'Violation',
                                 'found_by': 'native-validation'})
                            stop = True
                        elif nat['outcome'] == 'error':
                            res['errors'].append(
                                {'kwargs': kw, 'message': nat['message'],
                                 'exc_type': 'native-error',
                                 'trace': nat.get('trace', '')})
                            stop = True
                        elif nat['outcome'] == 'skip':
                            res['divergences'].append(
                                {'kwargs': repr(kw), 'kind': 'native-skip'})
                        if need_sample:
                            with ResumedTracing():
                                shown = [_safe_repr(deep_realize(c))[:400]
                                         for c in cases[:3]]
                            res['samples'].append(
                                {'kwargs': repr(kw), 'marks': marks,
                                 'case': shown})
                    status = VerificationStatus.CONFIRMED
            except IgnoreAttempt:
                res['paths'] += 1
                res['skipped'] += 1
                status = None
            except (UnexploredPath, CrossHairInternal) as exc:
                res['paths'] += 1
                res['unknown'] += 1
                k = type(exc).__name__
                res['unknown_reasons'][k] = res['unknown_reasons'].get(k, 0) + 1
                if len(res['unknown_reasons']) < 4:
                    res.setdefault('unknown_detail', []).append(
                        f'{k}: {exc}'[:300])
                status = VerificationStatus.UNKNOWN
            _analysis, exhausted = space.bubble_status(CallAnalysis(status))
        if stop:
            break
        if exhausted:
            res['exhausted'] = True
            break

    res['cpu_s'] = round(process_time() - t_start, 3)
    res['wall_s'] = round(time.time() - wall_start, 3)
    res['solver_s'] = round(SOLVER['time'], 3)
    res['solver_queries'] = SOLVER['queries']
    if res['failures'] or res['errors']:
        res['verdict'] = 'counterexample'
    elif res['exhausted'] and res['unknown'] == 0:
        res['verdict'] = 'confirmed'
    elif res['exhausted']:
        res['verdict'] = 'inconclusive(unknown-paths)'
    else:
        res['verdict'] = 'inconclusive(timeout)'
    return res
