"""Run penman.__main__.main() in-process with the environment stubbed by
contract: sys.argv, sys.stdin/stdout/stderr, and the module-level name
``open`` of penman.__main__ (a dict of file name -> text)."""

from __future__ import annotations

import io
import sys


class _NoClose(io.StringIO):
    def close(self):  # keep the captured text readable after main() returns
        pass


def run_main(argv, files=None, stdin_text=''):
    import penman.__main__ as M
    files = files or {}

    def fake_open(name, *a, **k):
        if name in files:
            return io.StringIO(files[name])
        raise FileNotFoundError(name)

    def plain_print(*args, file=None, sep=' ', end='\n'):
        # CrossHair's print() patch deep-copies its *file* argument, which
        # would lose the captured text; same contract, no copying
        (file if file is not None else sys.stdout).write(
            sep.join(str(a) for a in args) + end)

    saved = (sys.argv, sys.stdin, sys.stdout, sys.stderr,
             M.__dict__.get('open'), M.__dict__.get('print'))
    out, err = _NoClose(), _NoClose()
    code = None
    try:
        sys.argv = ['penman'] + list(argv)
        sys.stdin = io.StringIO(stdin_text)
        sys.stdout, sys.stderr = out, err
        M.open = fake_open
        M.print = plain_print
        try:
            M.main()
        except SystemExit as exc:
            code = exc.code
    finally:
        sys.argv, sys.stdin, sys.stdout, sys.stderr = saved[:4]
        for name, old in (('open', saved[4]), ('print', saved[5])):
            if old is None:
                M.__dict__.pop(name, None)
            else:
                setattr(M, name, old)
    if code is None:
        code = 0
    return code, out.getvalue(), err.getvalue()
