"""
E1: regex algebra.  Python regular expressions (as written in the live
penman modules) are parsed with the standard library's own regex parser and
translated construct by construct into z3 regular expressions over
unbounded-length strings.  Properties become emptiness queries.

Anything the translator does not know raises Untranslatable (the check then
stops with a harness error; never a pass).
"""

from __future__ import annotations

import re
import time

try:  # py >= 3.11
    import re._parser as sre_parse
    import re._constants as sre_c
except ImportError:  # pragma: no cover
    import sre_parse
    import sre_constants as sre_c

import z3

S = z3.StringSort()
RS = z3.ReSort(S)
MAXCHAR = 0x2FFFF  # z3's character sort upper bound


class Untranslatable(Exception):
    pass


def lit(s: str):
    return z3.Re(z3.StringVal(s))


def char_range(lo: int, hi: int):
    return z3.Range(z3.StringVal(chr(lo)), z3.StringVal(chr(hi)))


def allchar():
    return z3.AllChar(RS)


def any_of(chars):
    chars = sorted(set(chars))
    if not chars:
        return z3.Empty(RS)
    parts = [lit(c) for c in chars]
    return parts[0] if len(parts) == 1 else z3.Union(*parts)


def none_of(chars):
    return z3.Diff(allchar(), any_of(chars))


def concat(*parts):
    parts = [p for p in parts]
    if not parts:
        return lit('')
    if len(parts) == 1:
        return parts[0]
    return z3.Concat(*parts)


def union(*parts):
    parts = list(parts)
    if not parts:
        return z3.Empty(RS)
    if len(parts) == 1:
        return parts[0]
    return z3.Union(*parts)


def star(r):
    return z3.Star(r)


def plus(r):
    return z3.Plus(r)


def opt(r):
    return z3.Option(r)


def full():
    return z3.Full(RS)


_CATEGORIES = {
    'CATEGORY_DIGIT': lambda: char_range(0x30, 0x39),
    # \s in str patterns without re.ASCII covers Unicode whitespace; only
    # the ASCII subset is representable here, so refuse rather than guess.
}


def _set_item(op, av):
    name = str(op)
    if name == 'LITERAL':
        if av > MAXCHAR:
            raise Untranslatable(f'char {av:#x} beyond z3 range')
        return lit(chr(av))
    if name == 'RANGE':
        lo, hi = av
        return char_range(lo, min(hi, MAXCHAR))
    if name == 'CATEGORY':
        cat = str(av)
        if cat in _CATEGORIES:
            return _CATEGORIES[cat]()
        raise Untranslatable(f'category {cat}')
    raise Untranslatable(f'set item {name}')


def _translate(seq, end_anchor: str):
    parts = []
    for op, av in seq:
        name = str(op)
        if name == 'LITERAL':
            parts.append(lit(chr(av)))
        elif name == 'NOT_LITERAL':
            parts.append(none_of([chr(av)]))
        elif name == 'ANY':
            parts.append(none_of(['\n']))  # no DOTALL in penman
        elif name == 'IN':
            items = list(av)
            negate = bool(items) and str(items[0][0]) == 'NEGATE'
            if negate:
                items = items[1:]
            u = union(*[_set_item(o, a) for o, a in items])
            parts.append(z3.Diff(allchar(), u) if negate else u)
        elif name in ('MAX_REPEAT', 'MIN_REPEAT'):
            lo, hi, sub = av
            r = _translate(sub, end_anchor)
            if hi is sre_c.MAXREPEAT:
                if lo == 0:
                    parts.append(star(r))
                elif lo == 1:
                    parts.append(plus(r))
                else:
                    parts.append(concat(*([r] * lo), star(r)))
            else:
                parts.append(z3.Loop(r, lo, hi))
        elif name == 'SUBPATTERN':
            sub = av[-1]
            parts.append(_translate(sub, end_anchor))
        elif name == 'BRANCH':
            _, alts = av
            parts.append(union(*[_translate(a, end_anchor) for a in alts]))
        elif name == 'AT':
            which = str(av)
            if which == 'AT_END':
                # Python: end of string, or just before one final '\n'.
                # Handled by the caller through *end_anchor*:
                #   'drop'  - token-level language (anchor is a lookahead)
                #   'strict'- treat as end of string
                if end_anchor in ('drop', 'strict'):
                    continue
                raise Untranslatable('AT_END in this context')
            elif which == 'AT_BEGINNING':
                continue  # only used at pattern start with match()
            else:
                raise Untranslatable(f'anchor {which}')
        else:
            raise Untranslatable(f'construct {name}')
    return concat(*parts)


def from_python(pattern: str, flags: int = 0, end_anchor: str = 'drop'):
    """z3 regex for the *language* of a Python pattern (anchors as lookarounds
    are dropped per *end_anchor*)."""
    parsed = sre_parse.parse(pattern, flags)
    return _translate(parsed, end_anchor)


# -- queries ----------------------------------------------------------------

def witness(r, timeout_ms: int = 20000, extra=None):
    """Return ('unsat', None) if L(r) is empty, ('sat', string) with a member,
    or ('unknown', reason)."""
    s = z3.String('w')
    sol = z3.Solver()
    sol.set('timeout', timeout_ms)
    sol.add(z3.InRe(s, r))
    if extra is not None:
        sol.add(extra(s))
    t0 = time.time()
    res = sol.check()
    dt = time.time() - t0
    if str(res) == 'sat':
        val = sol.model().eval(s, model_completion=True)
        return 'sat', val.as_string() if hasattr(val, 'as_string') else str(val), dt
    if str(res) == 'unsat':
        return 'unsat', None, dt
    return 'unknown', sol.reason_unknown(), dt


def z3_unescape(text: str) -> str:
    """z3 prints non-ASCII as \\u{hex}; turn it back into a Python str."""
    return re.sub(r'\\u\{([0-9a-fA-F]+)\}', lambda m: chr(int(m.group(1), 16)),
                  text)


def difference(a, b):
    return z3.Diff(a, b)


def intersect(a, b):
    return z3.Intersect(a, b)


class Lemmas:
    """Collects E1 queries for one obligation."""

    def __init__(self):
        self.queries = []
        self.failures = []
        self.errors = []

    def empty(self, name, r, replay_fn=None, replay_key='s', timeout_ms=30000,
              note=''):
        """Obligation: L(r) is empty.  A member is a counterexample."""
        try:
            res, w, dt = witness(r, timeout_ms)
        except z3.Z3Exception as exc:
            self.errors.append({'message': f'{name}: z3 error {exc}'})
            return False
        rec = {'name': name, 'result': res, 'time_s': round(dt, 4)}
        if note:
            rec['note'] = note
        if res == 'sat':
            ws = z3_unescape(w)
            rec['witness'] = ws
            self.failures.append({'kwargs': {replay_key: ws, 'lemma': name},
                                  'message': f'{name}: witness {ws!r}',
                                  'replay_fn': replay_fn})
        elif res == 'unknown':
            rec['reason'] = str(w)
        self.queries.append(rec)
        return res == 'unsat'

    def nonempty(self, name, r, timeout_ms=30000):
        """Reachability witness: L(r) must be non-empty (vacuity guard)."""
        res, w, dt = witness(r, timeout_ms)
        rec = {'name': name, 'time_s': round(dt, 4)}
        if res == 'sat':
            rec['result'] = 'sat-as-expected'
            rec['witness'] = z3_unescape(w)
        elif res == 'unsat':
            rec['result'] = 'unsat'
            self.errors.append({'message': f'vacuous: {name} is empty'})
        else:
            rec['result'] = 'unknown'
        self.queries.append(rec)
        return res == 'sat'

    def result(self):
        return {'queries': self.queries, 'failures': self.failures,
                'errors': self.errors}
