"""
Driver: ./vf <ID> [--tier quick|thorough] [--replay FILE] [--jobs N]

Runs every obligation of a property (E1 regex-algebra lemmas, E2 symbolic
execution slices) in worker subprocesses, replays every counterexample
natively against /repo's working tree, consults known_findings.json, writes
evidence/<ID>.json and sets the exit status:

  0  no reproduced violation (evidence says which slices were exhausted)
  1  reproduced violation not listed as a known finding (VIOLATION line)
  2  harness error (vacuous harness, untranslatable construct, crash)
"""

from __future__ import annotations

import argparse
import concurrent.futures as cf
import hashlib
import importlib
import json
import os
import subprocess
import sys
import time

ROOT = os.path.dirname(os.path.dirname(os.path.abspath(__file__)))
WORK = os.path.join(ROOT, '.work')
REPLAYS = os.environ.get('VERIF_REPLAY_DIR') or os.path.join(ROOT, 'replays')
EVIDENCE = os.environ.get('VERIF_EVIDENCE_DIR') or os.path.join(ROOT, 'evidence')
KNOWN = os.path.join(ROOT, 'known_findings.json')


def load_known():
    if not os.path.exists(KNOWN):
        return []
    with open(KNOWN) as f:
        return json.load(f)['findings']


def _worker_cmd(*args):
    return [sys.executable, '-m', 'vflib.worker', *args]


def run_obligation(mod, tier, idx, ob, hard_timeout):
    os.makedirs(WORK, exist_ok=True)
    out = os.path.join(WORK, f'{mod}-{tier}-{idx}-{os.getpid()}.json')
    t0 = time.time()
    try:
        p = subprocess.run(
            _worker_cmd('run', mod, tier, str(idx), out),
            cwd=ROOT, capture_output=True, text=True, timeout=hard_timeout)
        rc, err = p.returncode, p.stderr[-3000:]
    except subprocess.TimeoutExpired:
        rc, err = -9, 'hard timeout'
    res = None
    if os.path.exists(out):
        try:
            with open(out) as f:
                res = json.load(f)
        except Exception as exc:  # pragma: no cover
            err += f'\nunreadable result: {exc}'
        os.unlink(out)
    if res is None:
        if rc == -9:
            res = {'verdict': 'inconclusive(hard-timeout)', 'paths': 0,
                   'failures': [], 'errors': []}
        else:
            # a crashed worker decides nothing: inconclusive, never a pass;
            # the run as a whole is a harness error only if most workers
            # crashed (see main)
            res = {'verdict': 'inconclusive(worker-crash)', 'paths': 0,
                   'failures': [], 'errors': [],
                   'crash': {'message': f'worker exit {rc}', 'trace': err}}
    res['wall_total_s'] = round(time.time() - t0, 2)
    return res


def replay_native(mod, fn_name, kwargs_repr):
    os.makedirs(WORK, exist_ok=True)
    h = hashlib.sha1((fn_name + kwargs_repr).encode()).hexdigest()[:12]
    inp = os.path.join(WORK, f'replay-in-{h}-{os.getpid()}.txt')
    with open(inp, 'w') as f:
        f.write(kwargs_repr)
    try:
        p = subprocess.run(_worker_cmd('replay', mod, fn_name, inp),
                           cwd=ROOT, capture_output=True, text=True,
                           timeout=120)
        line = p.stdout.strip().splitlines()[-1] if p.stdout.strip() else ''
        try:
            return json.loads(line)
        except Exception:
            return {'outcome': 'error',
                    'message': f'replay crashed rc={p.returncode}',
                    'trace': p.stderr[-2000:]}
    except subprocess.TimeoutExpired:
        return {'outcome': 'violation', 'message': 'native replay did not '
                'terminate within 120 s (hang)'}
    finally:
        if os.path.exists(inp):
            os.unlink(inp)


def write_replay(pid, mod, fn_name, kwargs_repr, message):
    os.makedirs(REPLAYS, exist_ok=True)
    h = hashlib.sha1((fn_name + kwargs_repr).encode()).hexdigest()[:10]
    path = os.path.join(REPLAYS, f'{pid}-{h}.json')
    with open(path, 'w') as f:
        json.dump({'property': pid, 'module': mod, 'harness': fn_name,
                   'kwargs_repr': kwargs_repr, 'message': message}, f,
                  indent=1)
    return path


def main(argv=None):
    ap = argparse.ArgumentParser()
    ap.add_argument('prop')
    ap.add_argument('--tier', default=os.environ.get('VERIF_TIER', 'quick'),
                    choices=['quick', 'thorough'])
    ap.add_argument('--replay')
    ap.add_argument('--jobs', type=int,
                    default=int(os.environ.get('VERIF_JOBS', '0')) or
                    max(1, (os.cpu_count() or 2)))
    ap.add_argument('--only', help='substring filter on obligation names '
                    '(debugging; evidence is marked partial)')
    ap.add_argument('--scale', type=float,
                    default=float(os.environ.get('VERIF_TIME_SCALE', '1')))
    args = ap.parse_args(argv)
    pid = args.prop.upper()
    mod = 'vflib.props.' + pid.lower()
    seed = int(os.environ.get('VERIF_SEED', '0') or 0)

    if args.replay:
        with open(args.replay) as f:
            r = json.load(f)
        out = replay_native(r['module'], r['harness'], r['kwargs_repr'])
        print(json.dumps(out, indent=1))
        if out['outcome'] == 'violation':
            print(f'VIOLATION property={pid} replay={args.replay}')
            return 1
        return 0 if out['outcome'] in ('ok', 'skip') else 2

    t0 = time.time()
    m = importlib.import_module(mod)
    obs = m.obligations(args.tier)
    sel = [(i, ob) for i, ob in enumerate(obs)
           if not args.only or args.only in ob['name']]
    # quick: longest first for packing (seed only rotates ties).
    # thorough: listing order (shallow to deep) under a wall-clock budget:
    # obligations not started when the budget is used up are reported as
    # "not-run(budget)" - never as confirmed.
    budget = None
    if args.tier == 'thorough':
        budget = float(os.environ.get('VERIF_WALL_BUDGET', '900'))
        order = list(sel)
    else:
        order = sorted(sel, key=lambda x: (-x[1].get('timeout', 30),
                                           (x[0] + seed) % max(1, len(sel))))
    results = {}
    pending = list(order)
    running = {}
    with cf.ThreadPoolExecutor(max_workers=args.jobs) as ex:
        while pending or running:
            while pending and len(running) < args.jobs:
                if budget is not None and time.time() - t0 > budget:
                    for i, ob in pending:
                        results[i] = {'verdict': 'not-run(budget)',
                                      'paths': 0, 'failures': [],
                                      'errors': []}
                    pending = []
                    break
                i, ob = pending.pop(0)
                to = ob.get('timeout', 30) * args.scale
                if budget is not None:
                    to = min(to, float(os.environ.get('VERIF_SLICE_CAP',
                                                      '600')))
                running[ex.submit(run_obligation, mod, args.tier, i, ob,
                                  to * 1.6 + 90)] = (i, ob)
            if not running:
                break
            done, _ = cf.wait(list(running), return_when=cf.FIRST_COMPLETED)
            for fut in done:
                i, ob = running.pop(fut)
                results[i] = fut.result()

    known = [k for k in load_known() if k['property'] == pid]
    violations, known_hits, harness_errors, inconclusive = [], [], [], []
    crashes = []
    ob_report = []
    tot = {'paths': 0, 'ok': 0, 'skipped': 0, 'unknown': 0, 'validated': 0,
           'solver_s': 0.0, 'solver_queries': 0, 'cpu_s': 0.0,
           'e1_queries': 0}
    samples = []
    for i, ob in sel:
        r = results[i]
        for k in ('paths', 'ok', 'skipped', 'unknown', 'validated',
                  'solver_queries', 'e1_queries'):
            tot[k] += int(r.get(k, 0))
        for k in ('solver_s', 'cpu_s'):
            tot[k] += float(r.get(k, 0.0))
        verdict = r.get('verdict', 'harness-error')
        entry = {'name': ob['name'], 'kind': ob['kind'],
                 'bound': ob.get('bound', ''), 'verdict': verdict,
                 'paths': r.get('paths', 0), 'ok_paths': r.get('ok', 0),
                 'precondition_pruned': r.get('skipped', 0),
                 'unknown_paths': r.get('unknown', 0),
                 'natively_validated': r.get('validated', 0),
                 'marks': r.get('marks', {}),
                 'solver_s': r.get('solver_s', 0.0),
                 'cpu_s': r.get('cpu_s', 0.0)}
        if r.get('queries'):
            entry['queries'] = r['queries']
        if r.get('unknown_reasons'):
            entry['unknown_reasons'] = r['unknown_reasons']
            entry['unknown_detail'] = r.get('unknown_detail', [])
        if r.get('divergences'):
            entry['divergences'] = r['divergences'][:5]
        for s in r.get('samples', [])[:2]:
            if len(samples) < 12:
                samples.append({'obligation': ob['name'], **s})
        # counterexamples -> native replay
        for fail in r.get('failures', []):
            fn_name = fail.get('replay_fn') or ob['fn']
            kw = fail['kwargs_repr']
            nat = replay_native(mod, fn_name, kw)
            if nat['outcome'] == 'violation':
                path = write_replay(pid, mod, fn_name, kw, nat['message'])
                violations.append({'obligation': ob['name'], 'replay': path,
                                   'message': nat['message'],
                                   'kwargs': kw})
                entry['verdict'] = 'counterexample(reproduced)'
            else:
                if entry['verdict'] != 'counterexample(reproduced)':
                    entry['verdict'] = 'inconclusive(divergence)'
                entry.setdefault('divergences', []).append(
                    {'kind': 'counterexample-not-reproduced', 'kwargs': kw,
                     'symbolic_message': fail.get('message'),
                     'native': nat})
        for err in r.get('errors', []):
            kw = err.get('kwargs_repr')
            if kw is not None:
                nat = replay_native(mod, err.get('replay_fn') or ob['fn'], kw)
                if nat['outcome'] in ('ok', 'skip'):
                    entry['verdict'] = 'inconclusive(divergence)'
                    entry.setdefault('divergences', []).append(
                        {'kind': 'error-not-reproduced', 'kwargs': kw,
                         'symbolic_message': err.get('message')})
                    continue
                err = dict(err, native=nat)
            harness_errors.append({'obligation': ob['name'], **err})
            entry['verdict'] = 'harness-error'
        # vacuity guard: required marks must have been reached on a
        # completed, assertion-passing path
        if entry['verdict'] == 'confirmed':
            missing = [mk for mk in ob.get('need_marks', [])
                       if not r.get('marks', {}).get(mk)]
            if missing:
                harness_errors.append(
                    {'obligation': ob['name'],
                     'message': f'vacuous: marks never reached {missing}'})
                entry['verdict'] = 'harness-error(vacuous)'
        if r.get('crash'):
            entry['crash'] = r['crash']
            crashes.append({'obligation': ob['name'], **r['crash']})
        if entry['verdict'].startswith('inconclusive') or \
                entry['verdict'].startswith('not-run'):
            inconclusive.append(ob['name'])
        ob_report.append(entry)

    # known findings: replay each listed witness natively
    for k in known:
        if k.get('status') != 'known':
            continue
        nat = replay_native(k['module'], k['harness'], k['kwargs_repr'])
        if nat['outcome'] == 'violation':
            known_hits.append(k)
            print(f"KNOWN-FINDING: property={pid} {k['id']}: {k['what']}")

    if crashes and len(crashes) * 2 > len(sel):
        harness_errors.extend(crashes[:3])
    wall = round(time.time() - t0, 2)
    confirmed = sum(1 for e in ob_report if e['verdict'] == 'confirmed')
    exhaustive = (confirmed == len(ob_report) and not args.only)
    states = max(1, tot['paths'] + tot['e1_queries'])
    evidence = {
        'property_id': pid,
        'tier': args.tier,
        'seed': seed,
        'level': 'model_checking',
        'wall_s': wall,
        'violations': len(violations),
        'coverage': {
            'states': states,
            'transitions': max(1, tot['solver_queries'] + tot['e1_queries']),
            'traces_validated_against_impl': tot['validated'],
            'samples': samples or [{'note': 'E1 only', 'queries': [
                q for e in ob_report for q in e.get('queries', [])][:6]}],
            'exhaustive': exhaustive,
            'rule': 'states = execution paths explored by symbolic execution '
                    '(one path condition each, feasibility of every branch '
                    'decided by z3) + regex-algebra queries; transitions = '
                    'z3 check() calls; traces_validated = paths whose '
                    'realised representative input was re-run natively '
                    'against /repo and agreed',
            'obligations': len(ob_report),
            'discharged': confirmed,
            'inconclusive': inconclusive,
            'paths_ok': tot['ok'],
            'paths_pruned_by_precondition': tot['skipped'],
            'paths_unknown': tot['unknown'],
            'solver_time_s': round(tot['solver_s'], 2),
            'cpu_time_s': round(tot['cpu_s'], 2),
            'e1_queries': tot['e1_queries'],
            'functions_encoded': getattr(m, 'FUNCTIONS', []),
            'bounds': getattr(m, 'BOUNDS', {}).get(args.tier, ''),
            'outside_claim': getattr(m, 'OUTSIDE', []),
            'obligation_report': ob_report,
            'violations': violations,
            'known_findings_reproduced': [k['id'] for k in known_hits],
            'harness_errors': harness_errors,
            'worker_crashes': crashes[:5],
            'partial_run_filter': args.only or None,
            'wall_budget_s': budget,
            'not_run_for_budget': sum(
                1 for e in ob_report if e['verdict'] == 'not-run(budget)'),
        },
        'assumptions': getattr(m, 'ASSUMPTIONS', []) + [
            'CrossHair 0.0.110 models of str/re/list/dict and z3 are trusted '
            '(mitigated: every explored path has one realised input re-run '
            'natively; counterexamples are reported only if they reproduce '
            'natively)',
        ],
    }
    os.makedirs(EVIDENCE, exist_ok=True)
    with open(os.path.join(EVIDENCE, f'{pid}.json'), 'w') as f:
        json.dump(evidence, f, indent=1, default=repr)

    print(f'{pid} tier={args.tier}: {confirmed}/{len(ob_report)} obligations '
          f'confirmed, {len(inconclusive)} inconclusive/not-run, '
          f'paths={tot["paths"]} '
          f'validated={tot["validated"]} e1={tot["e1_queries"]} '
          f'solver={tot["solver_s"]:.1f}s wall={wall}s')
    for e in ob_report:
        if e['verdict'] != 'confirmed' and e['verdict'] != 'not-run(budget)':
            print(f"  {e['name']}: {e['verdict']} paths={e['paths']}")
    if harness_errors:
        for h in harness_errors[:5]:
            print('HARNESS-ERROR', json.dumps(h, default=repr)[:1500])
    for v in violations:
        print(f"  violation: {v['obligation']}: {v['message'][:400]}")
        print(f"VIOLATION property={pid} replay={v['replay']}")
    if violations:
        return 1
    if harness_errors:
        return 2
    return 0


if __name__ == '__main__':
    sys.exit(main())
