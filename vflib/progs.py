"""
Symbolic programs: tree programs and graph programs decoded from bounded
symbolic integers.  The solver owns every choice; the decoders only turn the
integers into the concrete penman structures.
"""

from __future__ import annotations

from vflib.engine import assume, bound_int, case

VARS = ['a', 'b', 'c', 'd', 'e']


def pick(idx, options):
    """options[idx] by an if-chain (each comparison is a solver-decided
    branch); idx must already be assumed in range."""
    last = len(options) - 1
    for i, v in enumerate(options):
        if i == last or idx == i:
            return v
    assume(False)


def in_range(x, n):
    bound_int(x, 0, n)


# ---- tree programs -------------------------------------------------------------

NO_CONCEPT = ('<no-concept-branch>',)


def tree_program(sym, n_items, roles, atoms, concepts, prefix='i',
                 varnames=None):
    """Decode a tree of at most n_items branches from the symbolic ints
    sym['c0'] (top concept) and sym[f'{prefix}{j}_op|r|t'].

    op 0: atomic branch   (roles[r], atoms[t])
    op 1: open a nested node under roles[r]; its variable is the next fresh
          one, its concept is concepts[t]
    op 2: close the current node (r = t = 0)
    Concepts: NO_CONCEPT means "no '/' branch at all"; None means "(v /)".
    """
    names = varnames or VARS
    c0 = sym['c0']
    in_range(c0, len(concepts))
    root = (names[0], [])
    case(root)
    con = pick(c0, concepts)
    if con is not NO_CONCEPT:
        root[1].append(('/', con))
    stack = [root]
    nvars = 1
    for j in range(n_items):
        op = sym[f'{prefix}{j}_op']
        r = sym[f'{prefix}{j}_r']
        t = sym[f'{prefix}{j}_t']
        in_range(op, 3)
        if op == 2:
            assume(r == 0)
            assume(t == 0)
            assume(len(stack) > 1)
            # canonical programs: a close is never the last item (the end of
            # the program closes everything) - removes duplicate programs
            assume(j < n_items - 1)
            stack.pop()
            continue
        in_range(r, len(roles))
        role = pick(r, roles)
        if op == 0:
            in_range(t, len(atoms))
            stack[-1][1].append((role, pick(t, atoms)))
        else:
            in_range(t, len(concepts))
            assume(nvars < len(names))
            node = (names[nvars], [])
            nvars += 1
            con = pick(t, concepts)
            if con is not NO_CONCEPT:
                node[1].append(('/', con))
            stack[-1][1].append((role, node))
            stack.append(node)
    return root


def tree_params(n_items, prefix='i'):
    d = {'c0': int}
    for j in range(n_items):
        d[f'{prefix}{j}_op'] = int
        d[f'{prefix}{j}_r'] = int
        d[f'{prefix}{j}_t'] = int
    return d


def tree_nodes(node):
    out = [node]
    for _, tgt in node[1]:
        if isinstance(tgt, tuple):
            out.extend(tree_nodes(tgt))
    return out


def copy_tree(node):
    var, branches = node
    return (var, [(r, copy_tree(t) if isinstance(t, tuple) else t)
                  for r, t in branches])


# ---- graph programs --------------------------------------------------------------

def graph_program(sym, nv, n_extra, roles, consts, concepts):
    """nv variables VARS[:nv], each with one instance triple (concept chosen
    from *concepts*), plus n_extra triples (src, role, tgt) with tgt among
    the variables and *consts*; then a symbolic permutation (insertion
    positions) of the whole triple list and a symbolic top."""
    triples = []
    case(triples)
    for v in range(nv):
        ci = sym[f'c{v}']
        in_range(ci, len(concepts))
        triples.append((VARS[v], ':instance', pick(ci, concepts)))
    targets = VARS[:nv] + list(consts)
    for j in range(n_extra):
        s = sym[f'e{j}_s']
        r = sym[f'e{j}_r']
        t = sym[f'e{j}_t']
        in_range(s, nv)
        in_range(r, len(roles))
        in_range(t, len(targets))
        triples.append((pick(s, VARS[:nv]), pick(r, roles), pick(t, targets)))
    return triples


def graph_params(nv, n_extra):
    d = {}
    for v in range(nv):
        d[f'c{v}'] = int
    for j in range(n_extra):
        d[f'e{j}_s'] = int
        d[f'e{j}_r'] = int
        d[f'e{j}_t'] = int
    return d


def permute(items, sym, prefix='p'):
    """Apply a symbolic permutation given as insertion positions (a Lehmer
    code): element k is inserted at position sym[f'{prefix}{k}'] <= k."""
    out = []
    for k, item in enumerate(items):
        if k == 0:
            out.append(item)
            continue
        pos = sym[f'{prefix}{k}']
        in_range(pos, k + 1)
        placed = False
        for q in range(k + 1):
            if pos == q:
                out.insert(q, item)
                placed = True
                break
        assume(placed)
    return out


def perm_params(n, prefix='p'):
    return {f'{prefix}{k}': int for k in range(1, n)}
