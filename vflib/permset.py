"""
Hash-seed independence as a solver question.

install() must run before penman is imported.  It installs an import hook
that loads every ``penman.*`` module from /repo's current source through an
AST rewriter which replaces

    set(...)            ->  PermSet(...)
    {a, b}              ->  PermSet([a, b])
    {x for ...}         ->  PermSet(x for ...)
    frozenset(...)      ->  PermSet(...)   (only iteration order matters here)

PermSet is a set whose *iteration order* is given by the current permutation
vector ORDER (a Lehmer code of bounded symbolic integers supplied by the
harness): elements are first put in a canonical order (sorted by repr) and
element k is then inserted at position ORDER[k].  With ORDER all zeros...
any fixed vector is "some hash seed"; the property is that results do not
depend on the vector.  Sets with more elements than len(ORDER) have their
tail in canonical order.
"""

from __future__ import annotations

import ast
import importlib.abc
import importlib.machinery
import sys

ORDER = []          # set by the harness (list of ints, possibly symbolic)
SITES = []          # rewritten sites (module, lineno, kind) for evidence
ITERATIONS = [0]


class PermSet(set):
    """A set with a controllable iteration order."""

    def _ordered(self):
        ITERATIONS[0] += 1
        canon = sorted(set.__iter__(self), key=repr)
        out = []
        for k, item in enumerate(canon):
            pos = len(out)
            if k < len(ORDER):
                want = ORDER[k]
                for q in range(k + 1):
                    if want == q:
                        pos = q
                        break
            out.insert(pos, item)
        return out

    def __iter__(self):
        return iter(self._ordered())

    # set algebra must keep the type (C-level results are plain sets)
    def __sub__(self, other):
        return PermSet(set.__sub__(self, other))

    def __or__(self, other):
        return PermSet(set.__or__(self, other))

    def __and__(self, other):
        return PermSet(set.__and__(self, other))

    def __xor__(self, other):
        return PermSet(set.__xor__(self, other))

    def difference(self, *others):
        return PermSet(set.difference(self, *others))

    def union(self, *others):
        return PermSet(set.union(self, *others))

    def intersection(self, *others):
        return PermSet(set.intersection(self, *others))

    def copy(self):
        return PermSet(set.copy(self))

    def pop(self):
        item = self._ordered()[0]
        set.discard(self, item)
        return item

    def __reduce__(self):
        return (PermSet, (list(set.__iter__(self)),))


class _Rewriter(ast.NodeTransformer):
    def __init__(self, modname):
        self.modname = modname

    def _site(self, node, kind):
        SITES.append((self.modname, getattr(node, 'lineno', 0), kind))

    def visit_Call(self, node):
        self.generic_visit(node)
        if isinstance(node.func, ast.Name) and node.func.id in ('set',
                                                                'frozenset'):
            self._site(node, node.func.id + '()')
            node.func = ast.Name(id='_vf_PermSet', ctx=ast.Load())
        return node

    def visit_Set(self, node):
        self.generic_visit(node)
        self._site(node, 'set display')
        return ast.copy_location(ast.Call(
            func=ast.Name(id='_vf_PermSet', ctx=ast.Load()),
            args=[ast.List(elts=node.elts, ctx=ast.Load())], keywords=[]),
            node)

    def visit_SetComp(self, node):
        self.generic_visit(node)
        self._site(node, 'set comprehension')
        return ast.copy_location(ast.Call(
            func=ast.Name(id='_vf_PermSet', ctx=ast.Load()),
            args=[ast.GeneratorExp(elt=node.elt,
                                   generators=node.generators)],
            keywords=[]), node)


class _Loader(importlib.machinery.SourceFileLoader):
    def source_to_code(self, data, path, *, _optimize=-1):
        tree = ast.parse(data, filename=path)
        tree = _Rewriter(self.name).visit(tree)
        ast.fix_missing_locations(tree)
        return compile(tree, path, 'exec', dont_inherit=True,
                       optimize=_optimize)

    def get_code(self, fullname):
        # never use cached bytecode: always rewrite the current source
        path = self.get_filename(fullname)
        return self.source_to_code(self.get_data(path), path)

    def exec_module(self, module):
        module.__dict__['_vf_PermSet'] = PermSet
        super().exec_module(module)


class _Finder(importlib.abc.MetaPathFinder):
    def find_spec(self, fullname, path, target=None):
        if fullname != 'penman' and not fullname.startswith('penman.'):
            return None
        spec = importlib.machinery.PathFinder.find_spec(fullname, path)
        if spec is None or not isinstance(
                spec.loader, importlib.machinery.SourceFileLoader):
            return spec
        spec.loader = _Loader(spec.loader.name, spec.loader.path)
        return spec


def install():
    assert 'penman' not in sys.modules, 'install() before importing penman'
    sys.dont_write_bytecode = True
    sys.meta_path.insert(0, _Finder())
