"""
C17  Calls are pure and deterministic.

(a) purity, (b) repeatability / interleaving, (d) identity-independence
    (arguments passed through pickle, i.e. fresh marker instances as in a
    worker process): E2 over tree programs x a table of public calls.
(c) hash-seed independence as a solver question: penman is loaded through an
    AST rewriter that turns every set into a set whose iteration order is a
    symbolic permutation; every call must give the same result for every
    order.
"""

from __future__ import annotations

import copy
import pickle
from typing import List

from vflib import models, progs
from vflib.engine import Violation, assume, bound_int, mark, require
from vflib.progs import NO_CONCEPT
from vflib.props.c02 import well_formed

ID = 'C17'
FUNCTIONS = ['penman.codec._decode', 'penman.codec._encode',
             'penman.layout.interpret', 'penman.layout.configure',
             'penman.layout.reconfigure', 'penman._format.format',
             'penman.transform.reify_edges', 'penman.transform.dereify_edges',
             'penman.transform.reify_attributes',
             'penman.transform.indicate_branches',
             'penman.transform.canonicalize_roles',
             'penman.graph.Graph (queries, __or__, __sub__)',
             'penman.model.Model.errors', 'penman.layout.node_contexts',
             'penman.layout.appears_inverted',
             'penman.layout.get_pushed_variable', 'penman.surface.alignments',
             'penman.surface.role_alignments']
BOUNDS = {
    'quick': 'trees of <= 2 branches x 21 calls x every interleaved second '
             'call; set orders: every permutation of the first 3 elements of '
             'every set (17 rewritten sites) on trees of <= 2 branches',
    'thorough': 'trees of <= 3 branches; permutations of the first 4 elements',
}
ASSUMPTIONS = [
    'hash-seed dependence can only enter through set iteration order (dicts '
    'are insertion-ordered, no id()/hash() use in penman): the rewriter '
    'covers set(), frozenset(), set displays and set comprehensions in '
    'penman.* (sites listed in evidence samples)',
    'process independence is reduced to identity independence: arguments '
    'are pickled and unpickled (fresh Pop/Push instances)',
]
OUTSIDE = ['actual runs under different PYTHONHASHSEED values, actual worker '
           'processes and byte-identity of the real CLI process output '
           '(executions of the interpreter, not of penman code)',
           'random ordering keys']

ROLES = [':mod', ':ARG0-of', ':mod-of~1']
ATOMS = ['a', 'b', '7~2']
CONCEPTS = ['y', NO_CONCEPT]
G2_TEXT = '(a / y :mod (b / z~3) :polarity -)'


def gsig(g):
    return (g.top, list(g.triples),
            [(repr(k), [repr(e) for e in v]) for k, v in g.epidata.items()],
            dict(g.metadata))


class Env:
    pass


def make_calls():
    import penman
    from penman import layout, surface, transform
    return [
        ('encode', lambda E: penman.encode(E.g, model=E.m)),
        ('encode-top', lambda E: penman.encode(E.g, top=E.lastvar,
                                               model=E.m)),
        ('configure', lambda E: layout.configure(E.g, model=E.m).node),
        ('reconfigure', lambda E: layout.reconfigure(
            E.g, model=E.m, key=E.m.canonical_order).node),
        ('interpret', lambda E: gsig(layout.interpret(E.t, E.m))),
        ('format', lambda E: penman.format(E.t, indent=2, compact=True)),
        ('reify_edges', lambda E: gsig(transform.reify_edges(E.g, E.m))),
        ('dereify_edges', lambda E: gsig(transform.dereify_edges(
            transform.reify_edges(E.g, E.m), E.m))),
        ('reify_attributes', lambda E: gsig(transform.reify_attributes(E.g))),
        ('indicate_branches', lambda E: gsig(transform.indicate_branches(
            E.g, E.m))),
        ('canonicalize_roles', lambda E: transform.canonicalize_roles(
            E.t, E.m).node),
        ('queries', lambda E: (sorted(E.g.variables()), E.g.instances(),
                               E.g.edges(), E.g.attributes(),
                               sorted(E.g.reentrancies().items()))),
        ('union', lambda E: gsig(E.g | E.g2)),
        ('difference', lambda E: gsig(E.g - E.g2)),
        ('errors', lambda E: list(E.m.errors(E.g).items())),
        ('diagnostics', lambda E: (
            layout.node_contexts(E.g),
            [layout.appears_inverted(E.g, t) for t in E.g.triples],
            [layout.get_pushed_variable(E.g, t) for t in E.g.triples])),
        ('alignments', lambda E: (
            [(k, repr(v)) for k, v in surface.alignments(E.g).items()],
            [(k, repr(v)) for k, v in surface.role_alignments(E.g).items()])),
        ('decode', lambda E: gsig(penman.decode(E.text, model=E.m))),
        # a graph that really contains a collapsible reified node
        ('dereify_edges (reified argument)', lambda E: gsig(
            transform.dereify_edges(E.gr, E.m))),
        ('encode reified', lambda E: penman.encode(E.gr, model=E.m)),
        # a triple with two diagnostics (undefined role and unreachable)
        ('errors (two messages on one triple)',
         lambda E: list(E.m.errors(E.gbad).items())),
    ]


NCALLS = 21
GR_TEXT = ('(c / chapter~1 :ARG1-of (_ / have-mod-91~2 :ARG2 7~3) '
           ':ARG0 (b / book :ARG1-of (_2 / have-mod-91 :ARG2 (d / dull))))')


def build_env(sym, n):
    import penman
    from penman import layout
    from penman.tree import Tree
    real, ref = models.get('amr')
    node = progs.tree_program(sym, n, ROLES, ATOMS, CONCEPTS)
    assume(well_formed(node, ref))
    E = Env()
    E.m = real
    E.t = Tree(progs.copy_tree(node), metadata={'id': '9'})
    E.g = layout.interpret(Tree(progs.copy_tree(node), metadata={'id': '9'}),
                           real)
    E.g2 = penman.decode(G2_TEXT, model=real)
    E.gr = penman.decode(GR_TEXT, model=real)
    from penman.graph import Graph
    E.gbad = Graph([('a', ':instance', 'x'), ('b', ':foo', 'c'),
                    ('b', ':instance', 'y'), ('d', ':bar-of-of', 'b')])
    E.text = penman.format(E.t)
    E.lastvar = sorted(E.g.variables())[-1]
    return E, node


def qsig(g):
    return (sorted(g.variables(), key=repr), g.instances(), g.edges(),
            g.attributes())


def snapshot(E):
    return (copy.deepcopy(E.t.node), dict(E.t.metadata), gsig(E.g), E.g._top,
            gsig(E.g2), E.g2._top, gsig(E.gr), E.gr._top, qsig(E.g),
            qsig(E.gr), gsig(E.gbad))


def h_pure(n: int, **sym):
    fi, oi = sym['call'], sym['other']
    bound_int(fi, 0, NCALLS)
    bound_int(oi, 0, NCALLS)
    E, node = build_env(sym, n)
    calls = make_calls()
    require(len(calls) == NCALLS, 'call table size')
    name, f = progs.pick(fi, calls)
    oname, other = progs.pick(oi, calls)
    before = snapshot(E)
    try:
        r1 = f(E)
        after1 = snapshot(E)
        r2 = f(E)
        other(E)
        r3 = f(E)
        after3 = snapshot(E)
        # identity independence: pickled arguments (fresh marker objects)
        P = Env()
        P.m = E.m
        P.t, P.g, P.g2, P.gr, P.gbad = pickle.loads(
            pickle.dumps((E.t, E.g, E.g2, E.gr, E.gbad)))
        P.text, P.lastvar = E.text, E.lastvar
        r4 = f(P)
    except Violation:
        raise
    except Exception as exc:
        raise Violation(f'{name} raised {type(exc).__name__}: {exc}', node)
    require(after1 == before, f'{name} changed its arguments', node, before,
            after1)
    require(after3 == before, f'{name}/{oname} changed the arguments', node)
    require(r2 == r1, f'{name} is not repeatable', node, r1, r2)
    require(r3 == r1, f'{name} depends on an interleaved {oname}', node, r1,
            r3)
    require(r4 == r1, f'{name} depends on object identity (pickled '
            'arguments)', node, r1, r4)
    mark('ran')


h_pure.params_for = lambda fixed: {
    k: v for k, v in {**progs.tree_params(fixed['n']), 'call': int,
                      'other': int}.items() if k not in fixed}


def h_setorder(n: int, width: int, **sym):
    """Every call gives the same result under every set iteration order."""
    import sys
    from vflib import permset
    if 'penman' not in sys.modules:
        permset.install()
    require(any(type(m.__loader__).__name__ == '_Loader'
                for k, m in sys.modules.items()
                if k == 'penman.graph') or 'penman.graph' not in sys.modules,
            'penman was imported without the set rewriter')
    fi = sym['call']
    bound_int(fi, 0, NCALLS)
    perm = []
    for k in range(width):
        p = sym[f'perm{k}']
        bound_int(p, 0, k + 1)
        perm.append(p)
    permset.ORDER[:] = []
    E, node = build_env(sym, n)
    calls = make_calls()
    name, f = progs.pick(fi, calls)
    try:
        permset.ORDER[:] = []
        base = f(E)
        permset.ORDER[:] = perm
        it0 = permset.ITERATIONS[0]
        E2, _ = build_env(sym, n)
        got = f(E2)
        if permset.ITERATIONS[0] > it0:
            mark('sets-iterated')
    except Violation:
        raise
    except Exception as exc:
        raise Violation(f'{name} raised {type(exc).__name__}: {exc}', node)
    finally:
        permset.ORDER[:] = []
    require(got == base, f'{name} depends on set iteration order (hash '
            'seed)', node, perm, base, got)


h_setorder.params_for = lambda fixed: {
    k: v for k, v in {**progs.tree_params(fixed['n']), 'call': int,
                      **{f'perm{k}': int for k in range(fixed['width'])}
                      }.items() if k not in fixed}


def obligations(tier: str) -> List[dict]:
    obs = []

    def add(fn, name, timeout, marks=None, **fx):
        obs.append({'name': f'E2 {name} {fx}', 'kind': 'e2', 'fn': fn,
                    'fixed': fx, 'timeout': timeout, 'bound': str(fx),
                    'need_marks': marks or []})

    if tier == 'quick':
        for c in range(NCALLS):
            add('h_pure', '(a,b,d) purity/repeatability/identity', 400,
                ['ran'], n=1, call=c)
            # calls whose code iterates sets get the larger trees
            deep = c in (0, 3, 6, 7, 8, 11, 12, 13, 14, 18, 20)
            add('h_setorder', '(c) set iteration order', 400,
                ['sets-iterated'] if c in (0, 11, 12) else [],
                n=2 if deep else 1, width=3, call=c)
        for c in (0, 6, 7, 8, 12, 13):
            add('h_pure', '(a,b,d) purity/repeatability/identity', 400, n=2,
                call=c, other=(c + 5) % NCALLS)
        # re-topping a nested graph leaves surplus POPs to strip: the
        # pickled copy (fresh Pop instances) must behave the same
        for c in (0, 1, 3):
            add('h_pure', '(a,b,d) purity/repeatability/identity', 400, n=3,
                call=c, other=2, i0_op=1, i1_op=1)
    else:
        for c in range(NCALLS):
            add('h_pure', '(a,b,d) purity/repeatability/identity', 1800,
                ['ran'], n=2, call=c)
            add('h_setorder', '(c) set iteration order', 1800, n=2, width=4,
                call=c)
            add('h_setorder', '(c) set iteration order', 1800, n=3, width=3,
                call=c, i0_op=1, i1_op=1)
    return obs


LEVEL_TEXT = ('Bounded model checking: for every tree up to the bound and '
              'every call of a table of 21 public calls, the real code is run '
              'with argument snapshots before/after, repeated, interleaved '
              'with every other call and on pickled copies; hash-seed '
              'independence is decided by running penman with every set '
              'replaced (AST rewrite of the current source) by a set whose '
              'iteration order is a symbolic permutation.')
LEVEL_NOTE = ('Real hash seeds / worker processes / CLI byte identity are '
              'outside (not solver variables); set order is the only channel '
              'considered. Trusted: CrossHair/z3, the AST rewriter (sites '
              'reported).')
TECHNIQUE = ('CrossHair/z3 bounded symbolic execution with argument '
             'snapshots; set iteration order made a symbolic permutation via '
             'an AST rewrite of the live penman source')
