"""
C02  Decode then encode reproduces the layout that was written.

E2 over tree programs: interpret() then configure() with the same model
returns the normal form of the tree (only "(a /)" -> "(a)" may change), and
the same through text: encode(decode(format(t))) == format(nf(t)).
"""

from __future__ import annotations

from typing import List

from vflib import models, progs
from vflib.engine import Violation, assume, mark, require
from vflib.oracles import ref_interpret
from vflib.progs import NO_CONCEPT

ID = 'C02'
FUNCTIONS = ['penman.layout.interpret', 'penman.layout._interpret_node',
             'penman.layout._process_role', 'penman.layout._process_atomic',
             'penman.layout.configure', 'penman.layout._configure',
             'penman.layout._preconfigure', 'penman.layout._configure_node',
             'penman.layout._find_next',
             'penman.layout._get_or_establish_site',
             'penman.layout._process_epigraph', 'penman.model.Model.invert',
             'penman.model.Model.deinvert',
             'penman.model.Model.is_role_inverted', 'penman.codec._decode',
             'penman.codec._encode', 'penman._format.format',
             'penman._parse.parse']
BOUNDS = {
    'quick': 'all well-formed trees of <= 3 branches beyond the top concept '
             '(<= 4 nodes) over the role/atom/concept catalogues, models '
             '{default, amr, noop, custom}; alignment slice <= 2 branches',
    'thorough': '<= 4 branches (<= 5 nodes), same catalogues plus alignment '
                'slice <= 3 branches',
}
ASSUMPTIONS = [
    'labels are drawn from catalogues by solver-chosen indices (triples are '
    'dict keys inside penman, so CrossHair would realise free labels anyway); '
    'label content is covered by the leaf harnesses of C04/C13/C18',
    'well-formedness (distinct denoted triples, canonical roles, no inverted '
    'self-loop) is evaluated by the reference interpretation',
]
OUTSIDE = ['trees with more than 5 nodes / random deep trees',
           'metadata content (C01) - a fixed metadata dict is carried']

ATOMS = ['a', 'b', 'c', 'x', None]
CONCEPTS = [NO_CONCEPT, 'x', None, 'b']
# the small catalogues used at the larger bounds
ATOMS_S = ['a', 'b', 'x']
CONCEPTS_S = [NO_CONCEPT, 'b', None]
ATOMS_ALN = ['a~1', 'b~e.2', 'x~y3,4', '"s~t"~4', '"~"']
ROLES_ALN = {'default': [':r~1', ':r-of~e.2,3'],
             'amr': [':ARG0~1', ':ARG0-of~e.2,3'],
             'noop': [':r~1', ':r-of~e.2,3'],
             'custom': [':s-of~1', ':s-of-of~e.2,3']}
CONCEPTS_ALN = [NO_CONCEPT, 'x~9']


def nf(node):
    """The only normalisation allowed: an empty concept slot disappears."""
    var, branches = node
    out = []
    for role, tgt in branches:
        if role == '/' and tgt is None:
            continue
        out.append((role, nf(tgt) if isinstance(tgt, tuple) else tgt))
    return (var, out)


def well_formed(node, ref):
    _, triples, info = ref_interpret(node, ref)
    seen = []
    for t in triples:
        if t in seen:
            return False
        seen.append(t)
    # no inverted self-loop
    for (s, r, t), inf in zip(triples, info):
        if r != ':instance' and s == t:
            return False
    return True


def h_roundtrip(model: str, n: int, aln: bool, via_text: bool, small: bool,
                **sym):
    import penman
    from penman import layout
    from penman.tree import Tree
    real, ref = models.get(model)
    if aln:
        roles, atoms, concepts = ROLES_ALN[model], ATOMS_ALN, CONCEPTS_ALN
    elif small:
        roles, atoms, concepts = models.ROLES[model][:2], ATOMS_S, CONCEPTS_S
    else:
        roles, atoms, concepts = models.ROLES[model], ATOMS, CONCEPTS
    node = progs.tree_program(sym, n, roles, atoms, concepts)
    assume(well_formed(node, ref))
    nodes = progs.tree_nodes(node)
    if len(nodes) >= 3:
        mark('three-nodes')
    for nd in nodes[1:]:
        if nd[1] and all(r != '/' for r, _ in nd[1]):
            mark('conceptless-with-edges')
    want = nf(node)
    md = {'id': '1', 'snt': 'x y'}
    t = Tree(progs.copy_tree(node), metadata=dict(md))
    try:
        if via_text:
            s = penman.format(t)
            g = penman.decode(s, model=real)
            out = penman.encode(g, model=real)
            expect = penman.format(Tree(want, metadata=dict(md)))
            require(out == expect, 'encode(decode(s)) is not the normal-form '
                    'text', s, out, expect)
        else:
            g = layout.interpret(t, real)
            t2 = layout.configure(g, model=real)
            require(t2.node == want, 'configure(interpret(t)) != t', node,
                    t2.node, g.triples)
            require(t2.metadata == md, 'metadata lost', t2.metadata)
    except Violation:
        raise
    except Exception as exc:
        raise Violation(f'{type(exc).__name__}: {exc}', node)


def deep_tree(sym, depth, ntrail, roles, model_roles_inv=None):
    """A chain a -> b -> c [-> d] of nested nodes, closed back to a
    solver-chosen ancestor (several closes on one triple), followed by
    *ntrail* atomic branches on that ancestor whose targets are any of the
    variables or a constant."""
    from vflib.engine import bound_int
    names = progs.VARS[:depth + 1]
    nodes = [(v, [('/', 'x' + v)]) for v in names]
    for i in range(depth):
        r = sym[f'chain{i}_r']
        bound_int(r, 0, len(roles))
        nodes[i][1].append((progs.pick(r, roles), nodes[i + 1]))
    lvl = sym['level']
    bound_int(lvl, 0, depth)          # ancestor that gets the trailing part
    host = progs.pick(lvl, nodes[:depth])
    targets = names + ['k']
    for j in range(ntrail):
        r, t = sym[f'trail{j}_r'], sym[f'trail{j}_t']
        bound_int(r, 0, len(roles))
        bound_int(t, 0, len(targets))
        host[1].append((progs.pick(r, roles), progs.pick(t, targets)))
    return nodes[0]


def deep_params(depth, ntrail):
    d = {'level': int}
    for i in range(depth):
        d[f'chain{i}_r'] = int
    for j in range(ntrail):
        d[f'trail{j}_r'] = int
        d[f'trail{j}_t'] = int
    return d


def h_multiclose(model: str, depth: int, ntrail: int, **sym):
    """Deep nesting with several closes at once and re-entrancies to the
    intermediate nodes (shapes the small tree programs do not reach)."""
    import penman
    from penman import layout
    from penman.tree import Tree
    real, ref = models.get(model)
    node = deep_tree(sym, depth, ntrail, models.ROLES[model][:3])
    assume(well_formed(node, ref))
    t = Tree(progs.copy_tree(node))
    try:
        g = layout.interpret(t, real)
        t2 = layout.configure(g, model=real)
        s = penman.format(Tree(progs.copy_tree(node)))
        out = penman.encode(penman.decode(s, model=real), model=real)
    except Exception as exc:
        raise Violation(f'{type(exc).__name__}: {exc}', node)
    mark('deep')
    require(t2.node == node, 'configure(interpret(t)) != t', node, t2.node,
            g.triples)
    require(out == s, 'encode(decode(s)) != s', s, out)


h_multiclose.params_for = lambda fixed: {
    k: v for k, v in deep_params(fixed['depth'], fixed['ntrail']).items()
    if k not in fixed}

h_roundtrip.params_for = lambda fixed: {
    k: v for k, v in progs.tree_params(fixed['n']).items() if k not in fixed}


def obligations(tier: str) -> List[dict]:
    obs = []

    def add(model, n, aln, via_text, timeout, marks=None, small=False,
            ops=()):
        """ops: concrete values for the first op codes (work splitting)."""
        fixed = {'model': model, 'n': n, 'aln': aln, 'via_text': via_text,
                 'small': small}
        for j, op in enumerate(ops):
            fixed[f'i{j}_op'] = op
        obs.append({'name': f'E2 roundtrip model={model} n={n} aln={aln} '
                            f'text={via_text} small={small} ops={ops}',
                    'kind': 'e2',
                    'fn': 'h_roundtrip', 'fixed': fixed, 'timeout': timeout,
                    'bound': f'<= {n} branches', 'need_marks': marks or []})

    def deep(model, depth, ntrail, timeout, **fx):
        obs.append({'name': f'E2 multiclose model={model} depth={depth} '
                            f'trailing={ntrail} {fx}', 'kind': 'e2',
                    'fn': 'h_multiclose',
                    'fixed': {'model': model, 'depth': depth,
                              'ntrail': ntrail, **fx}, 'timeout': timeout,
                    'bound': f'chain of {depth + 1} nodes + {ntrail} '
                             'trailing branches', 'need_marks': ['deep']})

    OPS2 = [(0, 0), (0, 1), (1, 0), (1, 1), (1, 2)]
    if tier == 'quick':
        for m in ('default', 'amr'):
            deep(m, 2, 1, 300)
            deep(m, 3, 1, 400)
        for lvl in (0, 1):
            deep('default', 2, 2, 400, level=lvl)
        for m in ('default', 'amr', 'noop', 'custom'):
            for op in (0, 1):
                add(m, 2, False, False, 300, ops=(op,),
                    marks=['three-nodes'] if op else [])
            add(m, 2, True, True, 200)
        for ops in OPS2:
            add('default', 3, False, False, 400,
                ['three-nodes', 'conceptless-with-edges']
                if ops == (1, 1) else [], small=True, ops=ops)
            add('amr', 3, False, True, 400, small=True, ops=ops)
    else:
        for m in ('default', 'amr', 'noop', 'custom'):
            for lvl in (0, 1, 2):
                deep(m, 3, 2, 1800, level=lvl)
            deep(m, 4, 1, 1800)
            for op in (0, 1):
                add(m, 2, False, False, 900, ops=(op,))
                add(m, 3, True, True, 1800, ops=(op,))
            for ops in OPS2:
                add(m, 3, False, m in ('default', 'amr'), 1800, small=True,
                    ops=ops)
        for ops in OPS2:
            add('default', 3, False, False, 1800, small=False, ops=ops)
            for op2 in (0, 1, 2):
                if ops == (0, 0) and op2 == 2:
                    continue
                add('default', 4, False, False, 1800, small=True,
                    ops=ops + (op2,))
    return obs


LEVEL_TEXT = ('Bounded model checking: every well-formed tree up to the '
              'branch bound over the catalogues (solver-chosen shape and '
              'labels, four models) is interpreted and configured back by the '
              'real code and must equal its normal form, directly and through '
              'format/decode/encode.')
LEVEL_NOTE = ('Bounded by branch count and catalogues (evidence.bounds); '
              'labels are catalogue entries, not free strings. Trusted: '
              'CrossHair/z3; every path re-validated natively.')
TECHNIQUE = ('CrossHair/z3 bounded symbolic execution of interpret/configure '
             '(and decode/encode) over solver-chosen tree programs')
