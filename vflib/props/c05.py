"""
C05  Re-layout operations never change the graph.

(a) reconfigure(g, top, model, key) on decoded tree programs and marker-free
    graphs, keys {none, original, alphanumeric, canonical, symbolic key};
(b) rearrange(t, key, attributes_first): branch multiset kept, concept first,
    rest stably sorted by a reference key; graph content unchanged;
(c) a new top on decoded graphs (markers present);
(d) leaf: alphanumeric_order / canonical_order on a symbolic role string.
"""

from __future__ import annotations

from typing import List

from vflib import graphcheck, models, progs
from vflib.engine import (Violation, assume, bound_int, chars_below,
                          chars_not_in, mark, require)
from vflib.oracles import ref_interpret, tree_variables
from vflib.progs import NO_CONCEPT
from vflib.props.c02 import well_formed

ID = 'C05'
FUNCTIONS = ['penman.layout.reconfigure', 'penman.layout.rearrange',
             'penman.layout._rearrange', 'penman.layout.configure',
             'penman.model.Model.original_order',
             'penman.model.Model.alphanumeric_order',
             'penman.model.Model.canonical_order',
             'penman.model.Model.is_role_inverted', 'penman.codec._encode']
BOUNDS = {
    'quick': 'trees of <= 2 branches (every key x attributes_first), 3 '
             'branches for two key settings; symbolic key (ranks in 0..2 per '
             'catalogue role) on a 3-branch node; new top on 3-node decoded '
             'graphs; ASCII role strings of <= 5 characters for the key leaf',
    'thorough': 'trees of <= 3 branches for every key setting, 4 for one',
}
ASSUMPTIONS = [
    'labels are catalogue entries chosen by the solver; the symbolic key is '
    'an arbitrary total preorder on the catalogue roles (replaces "random '
    'with any seed")',
    'sorted()/list.sort are trusted to be stable',
]
OUTSIDE = ['Model.random_order itself (calls random.random: environment)']

ROLES = [':op10', ':op2', ':a-of', ':b']
ATOMS = ['a', 'x']
CONCEPTS = [NO_CONCEPT, 'y']


def ref_alnum(role):
    """name, number: a trailing run of digits preceded by a non-digit is the
    number (numeric order); otherwise number 0."""
    # "digit" as Python's re \d and int() understand it (any Unicode
    # decimal digit): the property speaks of numeric suffixes, not of ASCII
    j = len(role)
    while j > 0 and role[j - 1].isdecimal():
        j -= 1
    if j == len(role) or j == 0:
        return (role, 0)
    return (role[:j], int(role[j:]))


def ref_key(kind, ref, ranks=None):
    if kind == 'none':
        return lambda role: True
    if kind == 'original':
        return lambda role: True
    if kind == 'alphanumeric':
        return ref_alnum
    if kind == 'canonical':
        return lambda role: (ref.is_inverted(role), ref_alnum(role))
    if kind == 'symbolic':
        return lambda role: ranks[ROLES.index(role)]
    raise KeyError(kind)


def real_key(kind, real, ranks=None):
    if kind == 'none':
        return None
    if kind == 'original':
        return real.original_order
    if kind == 'alphanumeric':
        return real.alphanumeric_order
    if kind == 'canonical':
        return real.canonical_order
    if kind == 'symbolic':
        return lambda role: ranks[ROLES.index(role)]
    raise KeyError(kind)


def stable_sort(items, key):
    out = []
    for it in items:
        k = key(it)
        pos = len(out)
        while pos > 0 and key(out[pos - 1]) > k:
            pos -= 1
        out.insert(pos, it)
    return out


def ref_rearrange(node, key, variables, attributes_first):
    var, branches = node
    first, rest = [], list(branches)
    if rest and rest[0][0] == '/':
        first, rest = rest[:1], rest[1:]
    rest = [(r, ref_rearrange(t, key, variables, attributes_first)
             if isinstance(t, tuple) else t) for r, t in rest]

    def k(branch):
        role, tgt = branch
        v = tgt[0] if isinstance(tgt, tuple) else tgt
        c1 = (v in variables) if attributes_first else False
        return (c1, key(role))

    return (var, first + stable_sort(rest, k))


def _ranks(sym):
    ranks = []
    for i in range(len(ROLES)):
        r = sym[f'rank{i}']
        bound_int(r, 0, 3)
        ranks.append(r)
    return ranks


def h_rearrange(n: int, key: str, attributes_first: bool, **sym):
    from penman import layout
    from penman.tree import Tree
    real, ref = models.get('default')
    node = progs.tree_program(sym, n, ROLES, ATOMS, CONCEPTS)
    assume(well_formed(node, ref))
    ranks = _ranks(sym) if key == 'symbolic' else None
    t = Tree(progs.copy_tree(node))
    g_before = layout.interpret(Tree(progs.copy_tree(node)), real)
    try:
        layout.rearrange(t, key=real_key(key, real, ranks),
                         attributes_first=attributes_first)
    except Exception as exc:
        raise Violation(f'{type(exc).__name__}: {exc}', node)
    variables = set(tree_variables(node)) if attributes_first else set()
    want = ref_rearrange(node, ref_key(key, ref, ranks), variables,
                         attributes_first)
    if want != node:
        mark('order-changed')
    require(t.node == want, 'rearranged tree differs from reference order',
            node, t.node, want)
    g_after = layout.interpret(t, real)
    require(g_after.top == g_before.top, 'top changed', node)
    vs = g_before.variables()
    require(graphcheck.norm_triples(g_after.triples, vs, ref)
            == graphcheck.norm_triples(g_before.triples, vs, ref),
            'graph content changed by rearrange', node, g_after.triples)


def _rearr_params(fixed):
    d = dict(progs.tree_params(fixed['n']))
    if fixed['key'] == 'symbolic':
        for i in range(len(ROLES)):
            d[f'rank{i}'] = int
    return {k: v for k, v in d.items() if k not in fixed}


h_rearrange.params_for = _rearr_params


def h_flat_symbolic_key(attributes_first: bool, **sym):
    """One node with three branches, every role choice, every rank vector:
    stable order by an arbitrary key."""
    from penman import layout
    from penman.tree import Tree
    real, ref = models.get('default')
    ranks = _ranks(sym)
    branches = [('/', 'y')]
    for j in range(3):
        r = sym[f'r{j}']
        t = sym[f't{j}']
        bound_int(r, 0, len(ROLES))
        bound_int(t, 0, 2)
        branches.append((progs.pick(r, ROLES), progs.pick(t, ['a', 'x'])))
    node = ('a', branches)
    t = Tree(progs.copy_tree(node))
    layout.rearrange(t, key=lambda role: ranks[ROLES.index(role)],
                     attributes_first=attributes_first)
    want = ref_rearrange(node, lambda role: ranks[ROLES.index(role)],
                         {'a'} if attributes_first else set(),
                         attributes_first)
    if want != node:
        mark('order-changed')
    require(t.node == want, 'flat rearrange differs', node, ranks, t.node,
            want)


h_flat_symbolic_key.params_for = lambda fixed: {
    k: v for k, v in {
        **{f'rank{i}': int for i in range(len(ROLES))},
        **{f'{x}{j}': int for j in range(3) for x in 'rt'}}.items()
    if k not in fixed}

RC_ROLES = [':op10', ':op2-of', ':b']


def h_reconfigure(n: int, key: str, newtop: bool, markers: bool, **sym):
    from penman import layout
    from penman.graph import Graph
    from penman.tree import Tree
    real, ref = models.get('default')
    node = progs.tree_program(sym, n, RC_ROLES, ['a', 'b', 'x'],
                              [NO_CONCEPT, 'y'])
    assume(well_formed(node, ref))
    g = layout.interpret(Tree(progs.copy_tree(node)), real)
    if not markers:
        g = Graph(list(g.triples), top=g.top)
    variables = sorted(g.variables())
    top = None
    if newtop:
        ti = sym['top']
        bound_int(ti, 0, len(variables))
        top = progs.pick(ti, variables)
        if top != g.top:
            mark('new-top')
    before = list(g.triples)
    try:
        t = layout.reconfigure(g, top=top, model=real,
                               key=real_key(key, real))
        g2 = layout.interpret(t, real)
    except Exception as exc:
        raise Violation(f'{type(exc).__name__}: {exc}', node, top)
    require(g.triples == before, 'reconfigure modified its argument', node)
    graphcheck.same_content(before, top if top is not None else g.top, g2,
                            ref, (node, key, top))


def _rc_params(fixed):
    d = dict(progs.tree_params(fixed['n']))
    if fixed['newtop']:
        d['top'] = int
    return {k: v for k, v in d.items() if k not in fixed}


h_reconfigure.params_for = _rc_params


def h_newtop_encode(n: int, **sym):
    """encode(g, top=v) for every variable v of a decoded graph."""
    from penman import layout
    from penman.tree import Tree
    real, ref = models.get('default')
    node = progs.tree_program(sym, n, RC_ROLES, ['a', 'b', 'x'],
                              [NO_CONCEPT, 'y'])
    assume(well_formed(node, ref))
    g = layout.interpret(Tree(progs.copy_tree(node)), real)
    variables = sorted(g.variables())
    ti = sym['top']
    bound_int(ti, 0, len(variables))
    top = progs.pick(ti, variables)
    if top != g.top:
        mark('new-top')
    graphcheck.encode_decode(g, top, real, ref, list(g.triples), (node, top))


h_newtop_encode.params_for = lambda fixed: {
    k: v for k, v in {**progs.tree_params(fixed['n']), 'top': int}.items()
    if k not in fixed}


def h_key_leaf(body: str, maxlen: int, model: str):
    """alphanumeric_order / canonical_order on a symbolic role string."""
    real, ref = models.get(model)
    assume(len(body) <= maxlen)
    chars_not_in(body, '\n')
    # ASCII only: the Unicode decimal digits (\d, str.isdecimal) make the
    # path tree of a symbolic character practically unbounded; one non-ASCII
    # digit is checked concretely below
    chars_below(body, 128)
    require(tuple(real.alphanumeric_order(':op\u0663')) == (':op', 3),
            'non-ASCII decimal digit suffix')
    role = ':' + body
    try:
        got = real.alphanumeric_order(role)
        got_c = real.canonical_order(role)
    except Exception as exc:
        raise Violation(f'{type(exc).__name__}: {exc}', role)
    want = ref_alnum(role)
    if want[1] != 0:
        mark('numeric-suffix')
    require(tuple(got) == want, 'alphanumeric key differs', role, got, want)
    require(got_c[0] == ref.is_inverted(role) and tuple(got_c[1]) == want,
            'canonical key differs', role, got_c)


def obligations(tier: str) -> List[dict]:
    obs = []

    def add(fn, name, timeout, marks=None, **fixed):
        obs.append({'name': f'E2 {name} {fixed}', 'kind': 'e2', 'fn': fn,
                    'fixed': fixed, 'timeout': timeout,
                    'bound': str(fixed), 'need_marks': marks or []})

    KEYS = ['none', 'original', 'alphanumeric', 'canonical']
    if tier == 'quick':
        for k in KEYS:
            for af in (False, True):
                add('h_rearrange', 'rearrange', 300,
                    ['order-changed'] if k in ('alphanumeric', 'canonical')
                    else [], n=2, key=k, attributes_first=af)
        OPS2 = [(0, 0), (0, 1), (1, 0), (1, 1), (1, 2)]
        for ops in OPS2:
            add('h_rearrange', 'rearrange', 400, n=3, key='canonical',
                attributes_first=True, i0_op=ops[0], i1_op=ops[1])
        for af in (False, True):
            for r0 in range(len(ROLES)):
                add('h_flat_symbolic_key', 'flat symbolic key', 400,
                    ['order-changed'], attributes_first=af, r0=r0)
        for k in KEYS:
            add('h_reconfigure', 'reconfigure', 300, n=2, key=k,
                newtop=True, markers=True)
        add('h_reconfigure', 'reconfigure', 300, n=2, key='canonical',
            newtop=True, markers=False)
        # top=None: the graph's own (explicit) top must be kept even when the
        # key moves another node's triples to the front
        for k in ('alphanumeric', 'canonical', 'none'):
            add('h_reconfigure', 'reconfigure', 300, n=2, key=k,
                newtop=False, markers=True)
        for ops in OPS2:
            add('h_reconfigure', 'reconfigure', 400, n=3, key='alphanumeric',
                newtop=False, markers=True, i0_op=ops[0], i1_op=ops[1])
        for ops in OPS2:
            for r0 in range(len(RC_ROLES)):
                if r0 < 2:
                    add('h_reconfigure', 'reconfigure', 400,
                        ['new-top'] if ops == (1, 1) else [], n=3,
                        key='canonical', newtop=True, markers=True,
                        i0_op=ops[0], i1_op=ops[1], i0_r=r0)
                if r0 == 1:   # (C03 runs the same harness for all roles)
                    add('h_newtop_encode', 'encode new top', 400,
                        ['new-top'] if ops == (1, 1) else [], n=3,
                        i0_op=ops[0], i1_op=ops[1], i0_r=r0)
        add('h_key_leaf', 'key leaf', 300, ['numeric-suffix'], maxlen=4,
            model='default')
    else:
        OPS2 = [(0, 0), (0, 1), (1, 0), (1, 1), (1, 2)]
        for k in KEYS + ['symbolic']:
            for af in (False, True):
                add('h_rearrange', 'rearrange', 1800, n=2, key=k,
                    attributes_first=af)
        for k in ('canonical', 'alphanumeric'):
            for ops in OPS2:
                add('h_rearrange', 'rearrange', 1800, n=3, key=k,
                    attributes_first=True, i0_op=ops[0], i1_op=ops[1])
        for af in (False, True):
            for r0 in range(len(ROLES)):
                add('h_flat_symbolic_key', 'flat symbolic key', 1800,
                    ['order-changed'], attributes_first=af, r0=r0)
        for k in KEYS:
            for nt in (True, False):
                for mk in (True, False):
                    add('h_reconfigure', 'reconfigure', 1800, n=2, key=k,
                        newtop=nt, markers=mk)
        for k in ('canonical', 'alphanumeric'):
            for nt in (True, False):
                for ops in OPS2:
                    add('h_reconfigure', 'reconfigure', 1800, n=3, key=k,
                        newtop=nt, markers=True, i0_op=ops[0], i1_op=ops[1])
        for ops in OPS2:
            add('h_newtop_encode', 'encode new top', 1800, n=3,
                i0_op=ops[0], i1_op=ops[1])
        for ops in [(1, 0), (1, 1)]:
            for op2 in (0, 1, 2):
                add('h_newtop_encode', 'encode new top', 1800, n=4,
                    i0_op=ops[0], i1_op=ops[1], i2_op=op2, i0_r=0)
        for m in ('default', 'custom'):
            add('h_key_leaf', 'key leaf', 1800, ['numeric-suffix'],
                maxlen=5, model=m)
    return obs


LEVEL_TEXT = ('Bounded model checking: reconfigure / rearrange / re-topping '
              'are executed by the real code on every tree up to the bound '
              'under every key (including an arbitrary symbolic key) and '
              'compared with a reference ordering and with the graph content '
              'before the operation.')
LEVEL_NOTE = ('Bounded by branch count, catalogues, rank range; random_order '
              'is replaced by an arbitrary symbolic preorder. Trusted: '
              'CrossHair/z3, stable sorted(); every path re-validated '
              'natively.')
TECHNIQUE = ('CrossHair/z3 bounded symbolic execution of reconfigure/'
             'rearrange/encode(top=) over tree programs and symbolic keys')
