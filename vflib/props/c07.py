"""
C07  The parser accepts exactly the documented language and fails cleanly.

E2 over token programs: n tokens whose kinds are symbolic integers compared
lazily, whose texts are unconstrained symbolic strings and whose positions
are symbolic integers, fed to the real _parse / iterparse / parse /
_parse_triples through the real TokenIterator, against an independent
recursive-descent recogniser.
"""

from __future__ import annotations

from typing import List

from vflib import tokens as tk
from vflib.engine import Violation, assume, mark, require

ID = 'C07'
FUNCTIONS = ['penman._parse._parse', 'penman._parse._parse_comments',
             'penman._parse._parse_node', 'penman._parse._parse_edge',
             'penman._parse.parse', 'penman._parse.iterparse',
             'penman._parse.parse_triples', 'penman._parse._parse_triples',
             'penman._parse._parse_triple',
             'penman._lexer.TokenIterator.peek/next/expect/accept/error',
             'penman.exceptions.DecodeError', 'penman.tree.Tree']
BOUNDS = {
    'quick': 'graph parser: every token sequence of <= 5 tokens (9 kinds, '
             'arbitrary texts and positions); 6 tokens with the first token '
             '"("; iterparse <= 4 tokens; triple parser <= 5 tokens with symbol '
             'texts of <= 2 characters',
    'thorough': 'graph parser: <= 7 tokens (sliced on the first two kinds); '
                'iterparse <= 6; triple parser <= 6 tokens',
}
ASSUMPTIONS = [
    'token texts that reach _parse_comments contain no "::" in this check '
    '(metadata content is C01); positions are arbitrary non-negative ints',
    'lexing is composed in by C08 (token classes/offsets) and by the '
    'end-to-end slice here that runs parse() on a short symbolic string',
    'penman._parse.lex is rebound to return the symbolic token iterator '
    '(module global, no source change)',
]
OUTSIDE = ['nesting up to 200 levels and long/Unicode inputs (a symbolic '
           'input of 400+ tokens is out of reach); recursion is two frames '
           'per level (read, not solved)']


def _params(n, text_types=str):
    d = {}
    for i in range(n):
        d[f'k{i}'] = int
    for i in range(n):
        d[f't{i}'] = str
    for i in range(n):
        d[f'o{i}'] = int
    return d


def _collect(n, sym, prefixes, which):
    """Token program of n tokens.  *prefixes* is a list of kind prefixes used
    only to split the work: slice ``which >= 0`` takes programs that start
    with prefixes[which]; slice -1 takes all programs that start with none of
    them, so the slices partition the space."""
    kinds = [sym[f'k{i}'] for i in range(n)]
    texts = [sym[f't{i}'] for i in range(n)]
    offs = [sym[f'o{i}'] for i in range(n)]
    for k in kinds:
        assume(0 <= k < 9)
    for o in offs:
        assume(0 <= o)

    def starts(prefix):
        ok = True
        for k, want in zip(kinds, prefix):
            ok = ok and (k == want)
        return ok and len(prefix) <= n

    if which >= 0:
        assume(starts(prefixes[which]))
    else:
        for pre in prefixes:
            assume(not starts(pre))
    linenos = [1 + (i // 3) for i in range(n)]
    return kinds, texts, linenos, offs


def _bound_texts(texts, tlen):
    """Texts are symbolic strings of at most *tlen* characters (any Unicode).
    With tlen == 1 a comment cannot hold '::', so _parse_comments does not
    fork on content (metadata is C01's subject)."""
    for t in texts:
        assume(len(t) <= tlen)


def h_parse_graph(n: int, prefixes: tuple, which: int, entry: str, **sym):
    """_parse / parse on an n-token program vs the reference recogniser."""
    import penman._parse as P
    from penman._lexer import TokenIterator
    from penman.exceptions import DecodeError
    kinds, texts, linenos, offs = _collect(n, sym, prefixes, which)
    _bound_texts(texts, 1)
    toks = tk.make_tokens(kinds, texts, linenos, offs)
    from vflib.engine import case
    case(('token kinds', kinds, 'texts', texts))
    # reference
    ref = tk.RefParser(kinds, texts, linenos, offs)
    try:
        _, want_node = ref.graph()
        want = ('ok', want_node)
    except tk.RefReject as rej:
        want = ('reject', rej.pos)
    # real
    saved = P.lex
    try:
        if entry == '_parse':
            got_tree = P._parse(TokenIterator(iter(toks)))
        else:
            P.lex = lambda s, pattern=None: TokenIterator(iter(toks))
            got_tree = P.parse('<symbolic>')
        got = ('ok', got_tree.node)
        md = got_tree.metadata
    except DecodeError as exc:
        got = ('reject', (exc.lineno, exc.offset))
        md = None
    except Exception as exc:
        raise Violation(f'{type(exc).__name__} escaped the parser: {exc}')
    finally:
        P.lex = saved
    if want[0] == 'ok':
        mark('accepted')
        if len(want[1][1]) >= 2:
            mark('two-branches')
    else:
        mark('rejected')
    require(got[0] == want[0], 'acceptance differs', kinds, texts, got, want)
    if want[0] == 'ok':
        require(got[1] == want[1], 'tree differs', kinds, got[1], want[1])
        require(md == {}, 'metadata invented', md)
    else:
        require(got[1] == want[1], 'error position differs', kinds, got[1],
                want[1])


h_parse_graph.params_for = lambda fixed: _params(fixed['n'])


def h_iterparse(n: int, prefixes: tuple, which: int, **sym):
    """iterparse on an n-token program: sequence of graphs, then stop at the
    first token that cannot start a graph; errors as in _parse."""
    import penman._parse as P
    from penman._lexer import TokenIterator
    from penman.exceptions import DecodeError
    kinds, texts, linenos, offs = _collect(n, sym, prefixes, which)
    _bound_texts(texts, 1)
    toks = tk.make_tokens(kinds, texts, linenos, offs)
    ref = tk.RefParser(kinds, texts, linenos, offs)
    want_nodes = []
    want_err = None
    try:
        while ref.i < n and (kinds[ref.i] == tk.COMMENT
                             or kinds[ref.i] == tk.LPAREN):
            _, node = ref.graph()
            want_nodes.append(node)
    except tk.RefReject as rej:
        want_err = rej.pos
    saved = P.lex
    got_nodes = []
    got_err = None
    try:
        P.lex = lambda s, pattern=None: TokenIterator(iter(toks))
        for t in P.iterparse('<symbolic>'):
            got_nodes.append(t.node)
    except DecodeError as exc:
        got_err = (exc.lineno, exc.offset)
    except Exception as exc:
        raise Violation(f'{type(exc).__name__} escaped iterparse: {exc}')
    finally:
        P.lex = saved
    if len(want_nodes) >= 2:
        mark('two-graphs')
    if want_err is not None and want_nodes:
        mark('graph-then-error')
    require(got_nodes == want_nodes, 'graphs differ', kinds, got_nodes,
            want_nodes)
    require(got_err == want_err, 'error differs', kinds, got_err, want_err)


h_iterparse.params_for = lambda fixed: _params(fixed['n'])


# ---- triple conjunctions -----------------------------------------------------
# token kinds under TRIPLE_RE: COMMENT STRING LPAREN RPAREN SYMBOL UNEXPECTED

TRIPLE_KINDS = [tk.COMMENT, tk.STRING, tk.LPAREN, tk.RPAREN, tk.SYMBOL,
                tk.UNEXPECTED]


def _ref_triples(kinds, texts, linenos, offs):
    """Reference for the triple-conjunction notation

        Conj   <- Triple ('^' Triple)*
        Triple <- Role '(' Source (',' Target?)? ')'

    at token level, where a comma or a caret may be glued to a neighbouring
    symbol (documented spacing variants) and the first comma of the symbol
    that holds the source separates source and target.
    """
    n = len(kinds)
    pos = [0]

    def eoi():
        if pos[0] == 0:
            return tk.RefReject(0, 0)
        j = pos[0] - 1
        return tk.RefReject(linenos[j], offs[j] + len(texts[j]))

    def need(kind):
        if pos[0] >= n:
            raise eoi()
        if kinds[pos[0]] != kind:
            raise tk.RefReject(linenos[pos[0]], offs[pos[0]])
        pos[0] += 1
        return texts[pos[0] - 1]

    def peek_is(*ks):
        if pos[0] >= n:
            return False
        for k in ks:
            if kinds[pos[0]] == k:
                return True
        return False

    triples = []
    glued_caret = False
    while True:
        role = need(tk.SYMBOL)
        if glued_caret and role[:1] == '^':
            role = role[1:]
        if role[:1] != ':':
            role = ':' + role
        need(tk.LPAREN)
        first = need(tk.SYMBOL)
        target = None
        ci = first.find(',')
        if ci >= 0 and ci + 1 < len(first):       # a,b
            source, target = first[:ci], first[ci + 1:]
        elif ci >= 0:                              # "a," then optional target
            source = first[:ci]
            if peek_is(tk.SYMBOL, tk.STRING):
                target = texts[pos[0]]
                pos[0] += 1
        else:
            source = first
            if peek_is(tk.SYMBOL):
                nxt = texts[pos[0]]
                if nxt == ',':                      # a , b   /  a ,
                    pos[0] += 1
                    if peek_is(tk.SYMBOL, tk.STRING):
                        target = texts[pos[0]]
                        pos[0] += 1
                elif nxt[:1] == ',':                # a ,b
                    target = nxt[1:]
                    pos[0] += 1
                else:                               # a b : comma missing
                    raise tk.RefReject(linenos[pos[0]], offs[pos[0]])
        need(tk.RPAREN)
        triples.append((source, role, target))
        if pos[0] < n and kinds[pos[0]] == tk.SYMBOL \
                and texts[pos[0]][:1] == '^':
            if texts[pos[0]] == '^':
                pos[0] += 1
                glued_caret = False
            else:
                glued_caret = True
        else:
            break
    return triples


def h_parse_triples(n: int, prefixes: tuple, which: int, tlen: int, **sym):
    import penman._parse as P
    from penman._lexer import TokenIterator
    from penman.exceptions import DecodeError
    kinds, texts, linenos, offs = _collect(n, sym, prefixes, which)
    for k in kinds:
        assume(k != tk.SLASH and k != tk.ROLE and k != tk.ALIGNMENT)
    for t in texts:
        assume(len(t) <= tlen)
    toks = tk.make_tokens(kinds, texts, linenos, offs)
    try:
        want = ('ok', _ref_triples(kinds, texts, linenos, offs))
    except tk.RefReject as rej:
        want = ('reject', rej.pos)
    saved = P.lex
    try:
        P.lex = lambda s, pattern=None: TokenIterator(iter(toks))
        got = ('ok', P.parse_triples('<symbolic>'))
    except DecodeError as exc:
        got = ('reject', (exc.lineno, exc.offset))
    except Exception as exc:
        raise Violation(f'{type(exc).__name__} escaped parse_triples: {exc}')
    finally:
        P.lex = saved
    if want[0] == 'ok':
        mark('accepted')
        if len(want[1]) >= 2:
            mark('two-triples')
    else:
        mark('rejected')
    require(got == want, 'triple conjunction: result differs', kinds, texts,
            got, want)


h_parse_triples.params_for = lambda fixed: _params(fixed['n'])


# ---- end-to-end glue: the public entry point on a short symbolic string -------

def h_parse_text(s: str, maxlen: int, first: str):
    """parse(s) on a symbolic string: only DecodeError may escape, and the
    result agrees with reference lexer + reference recogniser."""
    import penman
    from penman.exceptions import DecodeError
    from vflib.oracles import ref_lex_line
    from vflib.props.c08 import _in_first_class
    assume(len(s) <= maxlen)
    assume('\n' not in s and '\r' not in s)
    # the characters str.splitlines() also splits on are C09's subject
    for c in s:
        assume(c not in '\x0b\x0c\x1c\x1d\x1e\x85  ')
    assume('::' not in s)
    if first != 'any':
        assume(len(s) == maxlen and _in_first_class(s[0], first))
    ref_toks = ref_lex_line(s)
    kinds = [tk.KIDX[t] for t, _, _ in ref_toks]
    texts = [x for _, x, _ in ref_toks]
    offs = [o for _, _, o in ref_toks]
    ref = tk.RefParser(kinds, texts, [1] * len(kinds), offs)
    try:
        _, node = ref.graph()
        want = ('ok', node)
        mark('accepted')
    except tk.RefReject as rej:
        want = ('reject', rej.pos)
    try:
        got = ('ok', penman.parse(s).node)
    except DecodeError as exc:
        got = ('reject', (exc.lineno, exc.offset))
    except Exception as exc:
        raise Violation(f'{type(exc).__name__} escaped parse(): {exc}', s)
    require(got == want, 'parse(text) differs from reference', s, got, want)


ML_FRAGS = ['(a / b', ':c d', ')', '(e :f', '# note', ') x', '', '"s']
ML_SEPS = ['\n', '\n\n', '\r\n', '\r', '\n\r\n\n', ' ']


def h_parse_multiline(k: int, entry: int, **sym):
    """Multi-line string input (blank lines, CRLF, CR): acceptance, tree and
    the reported line/column agree with reference line splitting + reference
    lexer + reference recogniser."""
    import penman
    from penman.exceptions import DecodeError
    from vflib import progs
    from vflib.engine import bound_int
    from vflib.oracles import ref_lex_line, ref_split_lines
    pieces = []
    for i in range(k):
        fi = sym[f'f{i}']
        bound_int(fi, 0, len(ML_FRAGS))
        pieces.append(progs.pick(fi, ML_FRAGS))
        if i < k - 1:
            si = sym[f's{i}']
            bound_int(si, 0, len(ML_SEPS))
            pieces.append(progs.pick(si, ML_SEPS))
    text = ''.join(pieces)
    from vflib.engine import case
    case(text)
    kinds, texts, linenos, offs = [], [], [], []
    for ln, line in enumerate(ref_split_lines(text), 1):
        for t, x, o in ref_lex_line(line):
            kinds.append(tk.KIDX[t])
            texts.append(x)
            linenos.append(ln)
            offs.append(o)
    ref = tk.RefParser(kinds, texts, linenos, offs)
    want_nodes, want_err = [], None
    try:
        if entry == 0:
            _, node = ref.graph()
            want_nodes.append(node)
        else:
            while ref.i < len(kinds) and kinds[ref.i] in (tk.COMMENT,
                                                          tk.LPAREN):
                _, node = ref.graph()
                want_nodes.append(node)
    except tk.RefReject as rej:
        want_err = rej.pos
    got_nodes, got_err = [], None
    try:
        if entry == 0:
            got_nodes.append(penman.parse(text).node)
        else:
            for t in penman.iterparse(text):
                got_nodes.append(t.node)
    except DecodeError as exc:
        got_err = (exc.lineno, exc.offset)
    except Exception as exc:
        raise Violation(f'{type(exc).__name__} escaped: {exc}', text)
    if want_err is not None and want_err[0] >= 3:
        mark('error-after-blank-lines')
    require(got_nodes == want_nodes, 'trees differ', text, got_nodes,
            want_nodes)
    require(got_err == want_err, 'error position differs', text, got_err,
            want_err)


h_parse_multiline.params_for = lambda fixed: {
    k: v for k, v in {**{f'f{i}': int for i in range(fixed['k'])},
                      **{f's{i}': int for i in range(fixed['k'] - 1)}}.items()
    if k not in fixed}


def obligations(tier: str) -> List[dict]:
    obs = []
    LP, RP, SY, SL, RO, CM = (tk.LPAREN, tk.RPAREN, tk.SYMBOL, tk.SLASH,
                              tk.ROLE, tk.COMMENT)

    def sliced(fn, label, n, prefixes, timeout, marks=None, **extra):
        """One obligation per prefix plus the complement slice."""
        prefixes = tuple(tuple(p) for p in prefixes)
        for which in list(range(len(prefixes))) + [-1]:
            nm = prefixes[which] if which >= 0 else 'rest'
            obs.append({
                'name': f'E2 {label} n={n} slice={nm}', 'kind': 'e2',
                'fn': fn,
                'fixed': {'n': n, 'prefixes': prefixes, 'which': which,
                          **extra},
                'timeout': timeout,
                'bound': f'{n} tokens, texts <= '
                         f'{extra.get("tlen", 1)} chars',
                'need_marks': (marks or []) if which == 0 or not prefixes
                else []})

    G, I, T = 'h_parse_graph', 'h_iterparse', 'h_parse_triples'
    node3 = [(LP, SY, SL), (LP, SY, RO)]
    if tier == 'quick':
        for n in (0, 1, 2, 3, 4, 5):
            sliced(G, '_parse', n, [], 120, entry='_parse')
        sliced(G, '_parse', 6, [(LP, SY)], 150, ['accepted', 'rejected'],
               entry='_parse')
        sliced(G, '_parse', 7, node3 + [(LP, SY, RP), (LP, RP), (CM,)], 300,
               ['accepted', 'two-branches'], entry='_parse')
        sliced(G, 'parse', 5, [], 120, ['accepted'], entry='parse')
        for n in (1, 2, 3, 4):
            sliced(I, 'iterparse', n, [], 120)
        sliced(I, 'iterparse', 5, [(LP, RP)], 150, ['two-graphs'])
        sliced(I, 'iterparse', 6, [(LP, RP), (LP, SY)], 300)
        for n in (0, 1, 2, 3):
            sliced(T, 'parse_triples', n, [], 120, tlen=2)
        sliced(T, 'parse_triples', 4, [(SY, LP)], 150, ['accepted'], tlen=2)
        sliced(T, 'parse_triples', 5, [(SY, LP, SY)], 300, ['accepted'],
               tlen=2)
        for entry in (0, 1):
            for f0 in (0, 3, 4):
                obs.append({'name': f'E2 multi-line text k=3 entry={entry} '
                                    f'f0={f0}', 'kind': 'e2',
                            'fn': 'h_parse_multiline',
                            'fixed': {'k': 3, 'entry': entry, 'f0': f0},
                            'timeout': 300, 'bound': '3 fragments',
                            'need_marks': ['error-after-blank-lines']
                            if f0 == 0 else []})
        obs.append({'name': 'E2 parse(text) len<=2', 'kind': 'e2',
                    'fn': 'h_parse_text',
                    'fixed': {'maxlen': 2, 'first': 'any'}, 'timeout': 200,
                    'bound': 'len(s) <= 2', 'need_marks': ['accepted']})
        for cls in ('lparen', 'hash'):
            obs.append({'name': f'E2 parse(text) len=3 first={cls}',
                        'kind': 'e2', 'fn': 'h_parse_text',
                        'fixed': {'maxlen': 3, 'first': cls}, 'timeout': 200,
                        'bound': 'len(s) == 3',
                        'need_marks': ['accepted'] if cls == 'lparen' else []})
    else:
        for n in (0, 1, 2, 3, 4, 5, 6):
            sliced(G, '_parse', n, [], 600, entry='_parse')
        sliced(G, '_parse', 7, node3 + [(LP, SY, RP), (LP, RP), (CM,)], 900,
               ['accepted'], entry='_parse')
        node4 = [(LP, SY, SL, SY), (LP, SY, SL, tk.STRING),
                 (LP, SY, SL, RO), (LP, SY, RO, SY), (LP, SY, RO, LP),
                 (LP, SY, RO, tk.ALIGNMENT), (LP, SY, RO, RO),
                 (LP, SY, RO, tk.STRING), (LP, SY, RP), (LP, RP), (CM, LP),
                 (CM, CM)]
        sliced(G, '_parse', 8, node4, 1800, ['accepted'], entry='_parse')
        sliced(G, 'parse', 7, node3 + [(LP, SY, RP), (LP, RP), (CM,)], 900,
               ['accepted'], entry='parse')
        for n in (1, 2, 3, 4, 5):
            sliced(I, 'iterparse', n, [], 600)
        sliced(I, 'iterparse', 6, [(LP, RP), (LP, SY)], 900, ['two-graphs'])
        sliced(I, 'iterparse', 7, [(LP, RP, LP), (LP, RP, CM), (LP, SY, RP),
                                   (LP, SY, SL), (LP, SY, RO), (CM,)], 1800)
        for n in (0, 1, 2, 3, 4):
            sliced(T, 'parse_triples', n, [], 600, tlen=2)
        sliced(T, 'parse_triples', 5, [(SY, LP, SY)], 1500, ['accepted'],
               tlen=2)
        sliced(T, 'parse_triples', 6, [(SY, LP, SY, SY), (SY, LP, SY, RP)],
               1800, ['accepted'], tlen=2)
        sliced(T, 'parse_triples', 4, [(SY, LP)], 1500, tlen=3)
        # r ( a ) ^ r ( b )  - with one-character texts the caret is a token
        sliced(T, 'parse_triples', 9, [(SY, LP, SY, RP, SY, SY, LP)], 1800,
               ['two-triples'], tlen=1)
        for entry in (0, 1):
            for f0 in range(len(ML_FRAGS)):
                obs.append({'name': f'E2 multi-line text k=4 '
                                    f'entry={entry} f0={f0}',
                            'kind': 'e2', 'fn': 'h_parse_multiline',
                            'fixed': {'k': 4, 'entry': entry, 'f0': f0},
                            'timeout': 1800, 'bound': '4 fragments'})
        obs.append({'name': 'E2 parse(text) len<=2', 'kind': 'e2',
                    'fn': 'h_parse_text',
                    'fixed': {'maxlen': 2, 'first': 'any'}, 'timeout': 600,
                    'bound': 'len(s) <= 2', 'need_marks': ['accepted']})
        from vflib.props.c08 import FIRST_CLASSES
        for cls in list(FIRST_CLASSES) + ['digit', 'letter', 'other']:
            obs.append({'name': f'E2 parse(text) len=3 first={cls}',
                        'kind': 'e2', 'fn': 'h_parse_text',
                        'fixed': {'maxlen': 3, 'first': cls},
                        'timeout': 900, 'bound': 'len(s) == 3'})
        for cls in ('lparen', 'hash'):
            obs.append({'name': f'E2 parse(text) len=4 first={cls}',
                        'kind': 'e2', 'fn': 'h_parse_text',
                        'fixed': {'maxlen': 4, 'first': cls},
                        'timeout': 1800, 'bound': 'len(s) == 4',
                        'need_marks': ['accepted'] if cls == 'lparen' else []})
    return obs


LEVEL_TEXT = ('Bounded model checking by symbolic execution of the real '
              'parser. Token kinds are symbolic and compared lazily, so every '
              'token sequence up to the bound is covered with arbitrary texts '
              'and positions; acceptance, tree and error position are compared '
              'with an independent recogniser of the documented grammar, and '
              'any exception other than DecodeError is a violation.')
LEVEL_NOTE = ('Bounded by token count (see evidence.bounds). Lexing is '
              'composed in through C08 and a short end-to-end parse(text) '
              'slice; the composition is an argument. Trusted: CrossHair/z3; '
              'every explored path is re-run natively on a realised input.')
TECHNIQUE = ('CrossHair/z3 bounded symbolic execution of _parse/iterparse/'
             'parse_triples over symbolic token programs vs a reference '
             'recogniser')
