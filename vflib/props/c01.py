"""
C01  Text <-> tree is lossless under every formatting option.

(F)  E2: tree programs (empty node, missing concept, missing target,
     anonymous role, quoted strings with delimiters and escapes, alignments
     on roles/concepts/targets, metadata) x symbolic indent x symbolic
     compact: parse(format(t)) == t with equal metadata, the texts of two
     option settings have the same tokens, format(parse(format(t))) is a
     fixed point.
(M)  E2: metadata with symbolic key/value through the real _parse_comments.
(G)  E2: parse/format fixed point on a short symbolic input string.
(T') E1: re-tokenisation lemmas on the live patterns (unbounded).
"""

from __future__ import annotations

import re
from typing import List

from vflib import progs, rx
from vflib.engine import (Violation, assume, bound_int, chars_not_in, mark,
                          require)
from vflib.oracles import ref_lex_line, ref_split_lines
from vflib.progs import NO_CONCEPT

ID = 'C01'
FUNCTIONS = ['penman._format.format', 'penman._format._format_node',
             'penman._format._format_edge', 'penman._parse.parse',
             'penman._parse._parse', 'penman._parse._parse_comments',
             'penman._parse._parse_node', 'penman._parse._parse_edge',
             'penman._lexer.lex', 'penman._lexer._lex',
             'penman._lexer.PENMAN_RE', 'penman.tree.Tree.__eq__',
             'penman.tree.Tree.nodes']
BOUNDS = {
    'quick': '(F) trees of <= 2 branches x indent in {None,-1,0,1,2,3,5} x '
             'compact, 3 branches for two indents; (M) 5 catalogue keys with a '
             'symbolic value of <= 4 chars (any Unicode); (G) input strings of '
             '<= 3 characters starting with "(" ; (T\') unbounded',
    'thorough': '(F) <= 3 branches all options; (M) value <= 6; '
                '(G) <= 4 characters',
}
ASSUMPTIONS = [
    'tree labels are catalogue entries chosen by the solver (they are what '
    'the grammar calls valid: symbols without delimiters and not starting '
    'with "#", quoted strings, documented alignments)',
    'metadata validity predicate (from the code\'s own rpartition/partition/'
    'rstrip): key without blank; value right-stripped; no line terminator; '
    'no colon in either in the symbolic harness (M) (stronger than "no ::"; '
    'values with single colons are in the (F) catalogue)',
    'composition T\' + F + M + G => text-level claim is an argument',
]
OUTSIDE = ['labels longer than the (G)/(M) bounds are covered only through '
           '(T\') and (F)', 'trees deeper than the bound',
           'indent > 5 (used only in " " * column)']

ROLES = [':r', ':', ':r-of~e.1']
ATOMS = ['b', None, '"x (y) / : ~ # \\" \\t \\\\ \tz"', 'c~2,3']
CONCEPTS = [NO_CONCEPT, None, 'y~1']
INDENTS = [None, -1, 0, 1, 2, 3, 5]
METAS = [{}, {'id': '1'},
         {'snt': 'a b \t c', 'id': 'x ; (y) " # : z', 'e': ''}]


def token_sig(text):
    out = []
    for line in ref_split_lines(text):
        out.extend((t, x) for t, x, _ in ref_lex_line(line))
    return out


def h_format_parse(n: int, **sym):
    import penman
    from penman.tree import Tree
    node = progs.tree_program(sym, n, ROLES, ATOMS, CONCEPTS)
    # one designated nested empty node: target of the last atomic None
    ii, ci, mi, ei = sym['indent'], sym['compact'], sym['meta'], sym['empty']
    bound_int(ii, 0, len(INDENTS))
    bound_int(ci, 0, 2)
    bound_int(mi, 0, len(METAS))
    bound_int(ei, 0, 2)
    indent = progs.pick(ii, INDENTS)
    compact = (ci == 1)
    meta = dict(progs.pick(mi, METAS))
    if ei == 1:
        node[1].append((':e', (None, [])))
        mark('empty-node')
    t = Tree(progs.copy_tree(node), metadata=dict(meta))
    try:
        s = penman.format(t, indent=indent, compact=compact)
        t2 = penman.parse(s)
        s_ref = penman.format(t, indent=None, compact=False)
        s2 = penman.format(t2, indent=indent, compact=compact)
    except Exception as exc:
        raise Violation(f'{type(exc).__name__}: {exc}', node, indent,
                        compact)
    require(t2.node == node, 'parse(format(t)) != t', node, indent, compact,
            s, t2.node)
    require(t2.metadata == meta, 'metadata differs', meta, t2.metadata, s)
    require(token_sig(s) == token_sig(s_ref), 'texts under different '
            'options differ in more than whitespace', s, s_ref)
    require(s2 == s, 'formatted text is not a fixed point of parse-then-'
            'format', s, s2)
    if '\n' in s and compact:
        mark('compact-multiline')


def _fp_params(fixed):
    d = dict(progs.tree_params(fixed['n']))
    d.update({'indent': int, 'compact': int, 'meta': int, 'empty': int})
    return {k: v for k, v in d.items() if k not in fixed}


h_format_parse.params_for = _fp_params


KEYS = ['id', 'k', '', 'a-b;(c)', 'snt']


def h_metadata(ki: int, value: str, vlen: int, second: bool):
    """The comment line format() writes for {key: value} is read back by the
    real _parse_comments (through the real TokenIterator).  The value is a
    symbolic string; the key is a catalogue entry (metadata keys are dict
    keys, i.e. hashed, so CrossHair would realise a symbolic key)."""
    import penman
    from penman._lexer import Token, TokenIterator
    from penman._parse import _parse_comments
    from penman.tree import Tree
    bound_int(ki, 0, len(KEYS))
    key = progs.pick(ki, KEYS)
    assume(len(value) <= vlen)
    # validity predicate without string searches (each search forks per
    # position): no colon in the value (stronger than "no '::'"), no line
    # terminator, value does not end in white space
    chars_not_in(value, ':\n\r')
    if len(value) > 0:
        assume(not value[len(value) - 1].isspace())
    meta = {key: value}
    if second:
        meta['zz'] = 'w'
    text = penman.format(Tree(('a', []), metadata=meta))
    lines = text.split('\n')
    require(lines[len(lines) - 1] == '(a)', 'graph line', text)
    toks = [Token('COMMENT', ln, i + 1, 0, ln)
            for i, ln in enumerate(lines[:len(lines) - 1])]
    toks.append(Token('LPAREN', '(', len(lines), 0, '(a)'))
    try:
        got = _parse_comments(TokenIterator(iter(toks)))
    except Exception as exc:
        raise Violation(f'{type(exc).__name__}: {exc}', key, value)
    if len(value) == 0:
        mark('empty-value')
    require(len(got) == len(meta) and got.get(key) == value
            and (not second or got.get('zz') == 'w'),
            'metadata does not round-trip', key, value, text, got)


def h_multikey_line(ki: int, v1: str, v2i: int, vlen: int):
    """A metadata line with several keys, as users write it
    ('# ::id 7 ::snt ...'): every value is read right-stripped, and the
    metadata survives format + parse (fixed point)."""
    import penman
    from penman._lexer import Token, TokenIterator
    from penman._parse import _parse_comments
    from penman.tree import Tree
    bound_int(ki, 0, len(KEYS))
    key = progs.pick(ki, KEYS)
    assume(key != 'zz' and key != 'snt')
    bound_int(v2i, 0, 3)
    v2 = progs.pick(v2i, ['x  y', '', 'z'])
    assume(len(v1) <= vlen)
    chars_not_in(v1, ':\n\r')
    if len(v1) > 0:
        assume(not v1[len(v1) - 1].isspace())
    line = '# ::' + key + ' ' + v1 + ' ::snt ' + v2 + '  ::zz'
    toks = [Token('COMMENT', line, 1, 0, line),
            Token('LPAREN', '(', 2, 0, '(a)')]
    try:
        got = _parse_comments(TokenIterator(iter(toks)))
    except Exception as exc:
        raise Violation(f'{type(exc).__name__}: {exc}', line)
    mark('multi-key')
    require(len(got) == 3 and got.get(key) == v1 and got.get('snt') == v2
            and got.get('zz') == '', 'multi-key metadata line misread', line,
            got)


def h_multikey_fixed_point(ki: int, v1i: int, v2i: int):
    """parse -> format -> parse of a text whose metadata line has several
    keys (catalogue values, through the real lexer)."""
    import penman
    bound_int(ki, 0, len(KEYS))
    key = progs.pick(ki, KEYS)
    assume(key != 'zz' and key != 'snt')
    vals = ['x  y', '', 'z ;(w) "q"', '7']
    bound_int(v1i, 0, len(vals))
    bound_int(v2i, 0, len(vals))
    v1, v2 = progs.pick(v1i, vals), progs.pick(v2i, vals)
    s = '# ::' + key + ' ' + v1 + ' ::snt ' + v2 + ' \t ::zz\n(a / b)'
    try:
        t = penman.parse(s)
        f1 = penman.format(t)
        t2 = penman.parse(f1)
        f2 = penman.format(t2)
    except Exception as exc:
        raise Violation(f'{type(exc).__name__}: {exc}', s)
    mark('multi-key')
    require(t.metadata == {key: v1, 'snt': v2, 'zz': ''},
            'multi-key metadata line misread', s, t.metadata)
    require(t2.metadata == t.metadata and t2.node == t.node,
            'metadata changed by format + parse', s, f1, t2.metadata)
    require(f1 == f2, 'formatted text is not a fixed point', f1, f2)


def h_text_fixed_point(s: str, maxlen: int):
    """For every accepted input: parse(format(parse(s))) == parse(s) and the
    formatted text is a fixed point."""
    import penman
    from penman.exceptions import DecodeError
    assume(len(s) == maxlen)
    assume(s[0] == '(')
    chars_not_in(s, '\n\r')
    try:
        t = penman.parse(s)
    except DecodeError:
        return
    except Exception as exc:
        raise Violation(f'{type(exc).__name__} escaped parse: {exc}', s)
    mark('accepted')
    try:
        f1 = penman.format(t)
        t2 = penman.parse(f1)
        f2 = penman.format(t2)
    except Exception as exc:
        raise Violation(f'{type(exc).__name__}: {exc}', s)
    require(t2.node == t.node and t2.metadata == t.metadata,
            'parse(format(parse(s))) != parse(s)', s, t.node, t2.node)
    require(f1 == f2, 'format(parse(s)) is not a fixed point', s, f1, f2)


def e1_retokenisation():
    L = rx.Lemmas()
    from penman import _lexer
    try:
        pat = {k: rx.from_python(v, re.VERBOSE)
               for k, v in _lexer.PATTERNS.items()}
    except rx.Untranslatable as exc:
        L.errors.append({'message': f'untranslatable: {exc}'})
        return L.result()
    delim = rx.any_of([' ', '\n', '\t', '(', ')', '/', ':', '~', '"'])
    anywhere = lambda r: rx.concat(rx.full(), r, rx.full())  # noqa: E731
    L.empty('SYMBOL holds no delimiter (a symbol ends where the formatter '
            'ended it)', rx.intersect(pat['SYMBOL'], anywhere(delim)),
            replay_fn='replay_e1')
    L.empty('ROLE holds no delimiter after its colon', rx.intersect(
        pat['ROLE'], rx.concat(rx.allchar(), anywhere(delim))),
        replay_fn='replay_e1')
    L.empty('ALIGNMENT holds no blank or parenthesis', rx.intersect(
        pat['ALIGNMENT'], anywhere(rx.any_of([' ', '\n', '(', ')']))),
        replay_fn='replay_e1')
    L.empty('STRING is prefix-free (quoted text is atomic)', rx.intersect(
        pat['STRING'], rx.concat(pat['STRING'], rx.plus(rx.allchar()))),
        replay_fn='replay_e1')
    L.empty('no class but COMMENT starts with "#" except SYMBOL/UNEXPECTED',
            rx.intersect(rx.union(pat['STRING'], pat['ROLE'],
                                  pat['ALIGNMENT'], pat['LPAREN'],
                                  pat['RPAREN'], pat['SLASH']),
                         rx.concat(rx.lit('#'), rx.full())),
            replay_fn='replay_e1')
    L.empty('a metadata line "# ::..." without LF is one COMMENT',
            rx.difference(rx.concat(rx.lit('# ::'),
                                    rx.star(rx.none_of(['\n']))),
                          pat['COMMENT']), replay_fn='replay_e1')
    return L.result()


def replay_e1(s: str, lemma: str):
    from penman import _lexer
    P = {k: re.compile(v, re.VERBOSE) for k, v in _lexer.PATTERNS.items()}
    if lemma.startswith('SYMBOL'):
        require(not (P['SYMBOL'].fullmatch(s)
                     and any(c in s for c in ' \n\t()/:~"')), lemma, s)
    elif lemma.startswith('ROLE'):
        require(not (P['ROLE'].fullmatch(s)
                     and any(c in s[1:] for c in ' \n\t()/:~"')), lemma, s)
    elif lemma.startswith('ALIGNMENT'):
        require(not (P['ALIGNMENT'].fullmatch(s)
                     and any(c in s for c in ' \n()')), lemma, s)
    elif lemma.startswith('STRING'):
        for k in range(1, len(s)):
            require(not (P['STRING'].fullmatch(s)
                         and P['STRING'].fullmatch(s[:k])), lemma, s)
    elif lemma.startswith('no class'):
        for k in ('STRING', 'ROLE', 'ALIGNMENT', 'LPAREN', 'RPAREN', 'SLASH'):
            require(not (P[k].fullmatch(s) and s.startswith('#')), lemma, s)
    else:
        toks = list(_lexer.lex([s]))
        require(len(toks) == 1 and toks[0].type == 'COMMENT'
                and toks[0].text == s, lemma, s)


def obligations(tier: str) -> List[dict]:
    obs = [{'name': "E1 (T') re-tokenisation lemmas", 'kind': 'e1',
            'fn': 'e1_retokenisation', 'timeout': 120,
            'bound': 'unbounded length'}]

    def add(fn, name, timeout, marks=None, **fx):
        obs.append({'name': f'E2 {name} {fx}', 'kind': 'e2', 'fn': fn,
                    'fixed': fx, 'timeout': timeout, 'bound': str(fx),
                    'need_marks': marks or []})

    if tier == 'quick':
        for ii in range(len(INDENTS)):
            add('h_format_parse', '(F) format/parse', 300,
                ['empty-node'] if ii == 0 else [], n=1, indent=ii)
        for ii in range(len(INDENTS)):
            add('h_format_parse', '(F) format/parse', 400,
                ['compact-multiline'] if ii == 1 else [], n=2, indent=ii,
                meta=ii % 3, empty=0)
        for ops in [(0, 1), (1, 0), (1, 1), (1, 2)]:
            add('h_format_parse', '(F) format/parse', 400, n=3, indent=1,
                meta=0, empty=0, compact=1, i0_op=ops[0], i1_op=ops[1],
                i0_r=0)
        add('h_metadata', '(M) metadata', 400, ['empty-value'], vlen=4,
            second=False)
        add('h_metadata', '(M) metadata', 400, vlen=3, second=True)
        add('h_multikey_line', '(M) multi-key line', 400, ['multi-key'],
            vlen=1)
        add('h_multikey_fixed_point', '(M) multi-key fixed point', 300,
            ['multi-key'])
        add('h_text_fixed_point', '(G) text fixed point', 300, ['accepted'],
            maxlen=2)
        add('h_text_fixed_point', '(G) text fixed point', 400, ['accepted'],
            maxlen=3)
    else:
        OPS2 = [(0, 0), (0, 1), (1, 0), (1, 1), (1, 2)]
        for ii in range(len(INDENTS)):
            add('h_format_parse', '(F) format/parse', 1800,
                ['compact-multiline'] if ii == 1 else [], n=2, indent=ii,
                meta=ii % 3)
        for ii in (0, 1, 4):
            for ops in OPS2:
                add('h_format_parse', '(F) format/parse', 1800, n=3,
                    indent=ii, meta=ii % 3, empty=0, i0_op=ops[0],
                    i1_op=ops[1])
        add('h_metadata', '(M) metadata', 1800, ['empty-value'], vlen=6,
            second=False)
        add('h_metadata', '(M) metadata', 1800, vlen=4, second=True)
        add('h_multikey_line', '(M) multi-key line', 1800, ['multi-key'],
            vlen=2)
        add('h_multikey_fixed_point', '(M) multi-key fixed point', 600,
            ['multi-key'])
        for ml in (2, 3, 4):
            add('h_text_fixed_point', '(G) text fixed point', 1800,
                ['accepted'], maxlen=ml)
    return obs


LEVEL_TEXT = ('Bounded model checking + unbounded regex algebra: every tree '
              'up to the bound is formatted under a symbolic indent/compact '
              'setting by the real formatter and re-parsed by the real lexer '
              'and parser (tree, metadata, token equality across options, '
              'fixed point); metadata with symbolic key/value goes through '
              'the real comment scanner; a short symbolic input goes through '
              'parse/format twice; E1 decides the re-tokenisation lemmas for '
              'labels of any length.')
LEVEL_NOTE = ('Bounded as in evidence.bounds; labels of arbitrary length are '
              'covered by the composition argument (T\')+(F), not by a single '
              'solver query. Trusted: CrossHair/z3; every path re-validated '
              'natively.')
TECHNIQUE = ('CrossHair/z3 bounded symbolic execution of format/parse over '
             'tree programs, symbolic options and symbolic metadata + z3 '
             'regex algebra for re-tokenisation')
