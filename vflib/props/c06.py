"""
C06  Layout markers shape the text but never its content; encoding is total.

(A) arbitrary marker assignment: graph program x marker program (any
    Push(v) and 0..2 POPs on any triple) x symbolic permutation.
(B) edit histories: a decoded catalogue graph whose marker map is edited by
    k solver-chosen operations (drop, add Push(v), add POP, move markers to
    another triple, move a triple).
(C) totality / error precision on arbitrary (also ill-formed) triple lists.
"""

from __future__ import annotations

from typing import List

from vflib import graphcheck, models, progs
from vflib.engine import Violation, assume, bound_int, mark, require

ID = 'C06'
FUNCTIONS = ['penman.layout.configure', 'penman.layout._configure',
             'penman.layout._preconfigure', 'penman.layout._configure_node',
             'penman.layout._find_next',
             'penman.layout._get_or_establish_site',
             'penman.layout._process_epigraph', 'penman.codec._encode',
             'penman.codec._decode', 'penman.exceptions.LayoutError']
BOUNDS = {
    'quick': '(A) 2 variables + 1..2 extra triples, every marker assignment '
             '(Push of any variable, <= 2 POPs per triple), every order; '
             '(B) 6 decoded base graphs (<= 3 nodes) x <= 2 marker/triple '
             'edits; (C) every list of <= 3 triples over 2 names x 4 tops',
    'thorough': '(A) 3 variables + 2 extra; (B) <= 3 edits; (C) <= 4 triples',
}
ASSUMPTIONS = [
    'labels are catalogue entries chosen by the solver',
    'termination: a non-terminating encode shows up as a path timeout '
    '(reported inconclusive, then replayed natively under a 120 s limit)',
]
OUTSIDE = ['graphs beyond the bounds']

ROLES = [':r', ':r-of']


def _markers(sym, name, nv, max_pops):
    """Marker list for one triple: optional Push(v), then 0..max_pops POPs."""
    from penman.layout import POP, Push
    pi = sym[f'{name}_push']
    ni = sym[f'{name}_pops']
    bound_int(pi, 0, nv + 1)
    bound_int(ni, 0, max_pops + 1)
    out = []
    for v in range(nv):
        if pi == v + 1:
            out.append(Push(progs.VARS[v]))
    for k in range(max_pops):
        if ni > k:
            out.append(POP)
    return out


def h_any_markers(nv: int, ne: int, perm: bool, max_pops: int, **sym):
    from penman.graph import Graph
    real, ref = models.get('default')
    triples = progs.graph_program(sym, nv, ne, ROLES, ['x'], ['x'])
    for i in range(len(triples)):
        for j in range(i):
            assume(triples[i] != triples[j])
    for s, r, t in triples:
        assume(not (r != ':instance' and s == t))
    variables = set(progs.VARS[:nv])
    normed = graphcheck.norm_triples(triples, variables, ref)
    for i in range(len(normed)):
        for j in range(i):
            assume(normed[i] != normed[j])
    top = 'a'
    assume(graphcheck.is_connected(triples, top))
    epidata = {}
    for i, tr in enumerate(triples):
        epidata[tr] = _markers(sym, f'm{i}', nv, max_pops)
    if any(len(v) >= 2 for v in epidata.values()):
        mark('several-markers')
    ordered = progs.permute(triples, sym) if perm else triples
    g = Graph(ordered, top=top, epidata=epidata)
    graphcheck.encode_decode(g, None, real, ref, ordered, (ordered, epidata))
    require(True, '')


def _any_params(fixed):
    nv, ne = fixed['nv'], fixed['ne']
    d = dict(progs.graph_params(nv, ne))
    for i in range(nv + ne):
        d[f'm{i}_push'] = int
        d[f'm{i}_pops'] = int
    if fixed['perm']:
        d.update(progs.perm_params(nv + ne))
    return {k: v for k, v in d.items() if k not in fixed}


h_any_markers.params_for = _any_params

BASES = [
    '(a / x :p k :r (b / y :p k))',
    '(a / x :r (b / y :q (c / z)))',
    '(a / x :r (b / y) :q (c / z))',
    '(a / x :r (b / y :q a))',
    '(a / x :r-of (b / y :q-of (c / z)))',
    '(a :r (b) :q b)',
]


def h_edits(base: int, k: int, **sym):
    """A decoded graph whose markers/triples were edited k times still
    encodes, and decodes to the same graph."""
    import penman
    from penman.layout import POP, Push
    real, ref = models.get('default')
    g = penman.decode(BASES[base])
    ci = sym['copy']
    bound_int(ci, 0, 2)
    if ci == 1:
        # a copy carries fresh Pop instances instead of the POP singleton
        # (as after pickling, deepcopy or the set operators)
        import copy
        g = copy.deepcopy(g)
        mark('copied')
    triples = list(g.triples)
    n = len(triples)
    variables = sorted(g.variables())
    for e in range(k):
        kind = sym[f'e{e}_kind']
        i = sym[f'e{e}_i']
        j = sym[f'e{e}_j']
        bound_int(kind, 0, 5)
        bound_int(i, 0, n)
        bound_int(j, 0, n)
        ti = progs.pick(i, g.triples)
        if kind == 0:      # drop all markers of triple i
            assume(j == 0)
            g.epidata[ti] = []
        elif kind == 1:    # add Push(v_j) to triple i
            assume(j < len(variables))
            g.epidata[ti] = list(g.epidata.get(ti, [])) + [
                Push(progs.pick(j, variables))]
        elif kind == 2:    # add a POP to triple i
            assume(j == 0)
            g.epidata[ti] = list(g.epidata.get(ti, [])) + [POP]
        elif kind == 3:    # swap marker lists of triples i and j
            assume(i < j)
            tj = progs.pick(j, g.triples)
            a, b = g.epidata.get(ti, []), g.epidata.get(tj, [])
            g.epidata[ti], g.epidata[tj] = b, a
        else:              # move triple i to position j (markers stay)
            assume(i != j)
            g.triples.remove(ti)
            pos = 0
            for q in range(n):
                if j == q:
                    pos = q
            g.triples.insert(pos, ti)
            mark('reordered')
    graphcheck.encode_decode(g, None, real, ref, list(g.triples),
                             (BASES[base], list(g.triples), dict(g.epidata)))


def _edit_params(fixed):
    d = {'copy': int}
    for e in range(fixed['k']):
        d[f'e{e}_kind'] = int
        d[f'e{e}_i'] = int
        d[f'e{e}_j'] = int
    return {k: v for k, v in d.items() if k not in fixed}


h_edits.params_for = _edit_params

T_NAMES = ['a', 'b']
T_ROLES = [':instance', ':r', ':r-of']
T_TARGETS = ['a', 'b', 'x', None]
T_TOPS = [None, 'a', 'b', 'x']


def h_totality(n: int, small: bool, **sym):
    """Any triple list: encode succeeds or raises LayoutError, the latter
    exactly when a variable is not weakly connected to the top or the top
    is not a variable."""
    import penman
    from penman.exceptions import LayoutError
    from penman.graph import Graph
    triples = []
    for i in range(n):
        s, r, t = sym[f't{i}_s'], sym[f't{i}_r'], sym[f't{i}_t']
        roles = T_ROLES[:2] if small else T_ROLES
        targets = T_TARGETS[:3] if small else T_TARGETS
        bound_int(s, 0, len(T_NAMES))
        bound_int(r, 0, len(roles))
        bound_int(t, 0, len(targets))
        triples.append((progs.pick(s, T_NAMES), progs.pick(r, roles),
                        progs.pick(t, targets)))
    ti = sym['top']
    bound_int(ti, 0, len(T_TOPS))
    top = progs.pick(ti, T_TOPS)
    g = Graph(triples)
    variables = set(s for s, _, _ in triples)
    eff_top = top if top is not None else (triples[0][0] if triples else None)
    try:
        s = penman.encode(g, top=top)
        outcome = 'ok'
    except LayoutError:
        outcome = 'layout-error'
    except Exception as exc:
        raise Violation(f'{type(exc).__name__} escaped encode: {exc}',
                        triples, top)
    if n == 0:
        require(outcome == 'ok', 'empty graph must encode', top)
        return
    should_fail = (eff_top not in variables) or not \
        graphcheck.is_connected(triples, eff_top)
    if should_fail:
        mark('must-fail')
    else:
        mark('must-succeed')
    require((outcome == 'layout-error') == should_fail,
            'LayoutError raised iff disconnected or top not a variable',
            triples, top, outcome)


h_totality.params_for = lambda fixed: {
    k: v for k, v in {
        **{f't{i}_{x}': int for i in range(fixed['n']) for x in 'srt'},
        'top': int}.items() if k not in fixed}


def obligations(tier: str) -> List[dict]:
    obs = []

    def anym(nv, ne, perm, pops, timeout, marks=None, **fx):
        obs.append({'name': f'E2 any-markers nv={nv} ne={ne} perm={perm} '
                            f'pops<={pops} {fx}', 'kind': 'e2',
                    'fn': 'h_any_markers',
                    'fixed': {'nv': nv, 'ne': ne, 'perm': perm,
                              'max_pops': pops, **fx},
                    'timeout': timeout, 'bound': f'{nv} vars {ne} extra',
                    'need_marks': marks or []})

    def edits(base, k, timeout, marks=None, **fx):
        obs.append({'name': f'E2 edits base={BASES[base]} k={k} {fx}',
                    'kind': 'e2', 'fn': 'h_edits',
                    'fixed': {'base': base, 'k': k, **fx},
                    'timeout': timeout, 'bound': f'{k} edits',
                    'need_marks': marks or []})

    def tot(n, timeout, marks=None):
        obs.append({'name': f'E2 totality n={n}', 'kind': 'e2',
                    'fn': 'h_totality', 'fixed': {'n': n, 'small': False},
                    'timeout': timeout, 'bound': f'{n} triples',
                    'need_marks': marks or []})

    def tot_sliced(n, timeout, small=False):
        for top in range(len(T_TOPS)):
            for s0 in range(len(T_NAMES)):
                for r0 in range(2 if small else 3):
                    obs.append({
                        'name': f'E2 totality n={n} small={small} top={top} '
                                f's0={s0} r0={r0}',
                        'kind': 'e2', 'fn': 'h_totality',
                        'fixed': {'n': n, 'small': small, 'top': top,
                                  't0_s': s0, 't0_r': r0},
                        'timeout': timeout,
                        'bound': f'{n} triples' + (
                            ', roles {:instance,:r}, targets {a,b,x}'
                            if small else ''),
                        'need_marks': []})

    if tier == 'quick':
        anym(2, 1, False, 1, 300, ['several-markers'])
        anym(2, 1, True, 0, 300)
        # attributes (constant targets) with arbitrary markers
        anym(1, 1, True, 2, 300)
        anym(1, 2, True, 1, 300)
        for s0 in (0, 1):
            anym(2, 2, False, 0, 300, e0_s=s0, e0_t=2)
        for b in range(len(BASES)):
            edits(b, 1, 200)
        for b in (1, 3, 5):
            for kind in range(5):
                edits(b, 2, 300, ['reordered'] if kind == 4 else [],
                      e0_kind=kind)
        for n in (0, 1, 2):
            tot(n, 300, ['must-fail', 'must-succeed'] if n == 2 else [])
        tot_sliced(3, 300, small=True)
    else:
        anym(2, 1, True, 2, 1800, ['several-markers'])
        anym(1, 2, True, 2, 1800)
        for s0 in (0, 1):
            for t0 in (0, 1, 2):
                anym(2, 2, False, 1, 1800, e0_s=s0, e0_t=t0)
            anym(2, 2, True, 0, 1800, e0_s=s0)
        for b in range(len(BASES)):
            for kind in range(5):
                edits(b, 2, 1800, e0_kind=kind)
        for b in (1, 3):
            for kind in range(5):
                for kind2 in range(5):
                    edits(b, 3, 1800, e0_kind=kind, e1_kind=kind2, e2_kind=0)
        for n in (0, 1, 2):
            tot(n, 1200)
        tot_sliced(3, 1800)
    return obs


LEVEL_TEXT = ('Bounded model checking: for every marker assignment / edit '
              'history / triple list within the bound the real encode is '
              'executed; it must terminate, succeed and decode to the same '
              'graph when the graph is connected, and raise LayoutError '
              'exactly when it is not (or the top is not a variable).')
LEVEL_NOTE = ('Bounded by graph size, POPs per triple (<= 2) and edit count; '
              'labels from catalogues. Trusted: CrossHair/z3; every path '
              're-validated natively.')
TECHNIQUE = ('CrossHair/z3 bounded symbolic execution of encode/configure '
             'over solver-chosen marker assignments, edit histories and '
             'triple lists')
