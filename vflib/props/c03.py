"""
C03  Any graph survives encode then decode with its content intact, from any
top.

E2 over graph programs: nv variables (one instance triple each), extra
triples with solver-chosen source/role/target (variables and constants incl.
0, 0.0, negative numbers, strings, None), a symbolic permutation of the
triple list and a symbolic top; no layout markers (C06 adds markers).
Leaf harness: _format_edge on a fully symbolic target.
"""

from __future__ import annotations

from typing import List, Optional, Union

from vflib import graphcheck, models, progs
from vflib.engine import Violation, assume, bound_int, mark, require

ID = 'C03'
FUNCTIONS = ['penman.layout.configure', 'penman.layout._configure',
             'penman.layout._preconfigure', 'penman.layout._configure_node',
             'penman.layout._find_next',
             'penman.layout._get_or_establish_site',
             'penman.layout._process_epigraph', 'penman._format.format',
             'penman._format._format_node', 'penman._format._format_edge',
             'penman.graph.Graph.__init__', 'penman.graph.Graph.variables',
             'penman.graph.Graph.top', 'penman.codec._encode',
             'penman.codec._decode', 'penman.layout.interpret',
             'penman.model.Model.invert_role',
             'penman.model.Model.is_role_inverted']
BOUNDS = {
    'quick': 'graphs of <= 3 variables with <= 2 extra triples (every '
             'permutation of the triple list, every top) and 2 variables '
             'with 3 extra; models default/amr/custom; _format_edge: target '
             'None, int in [-4,4], 6 floats or any str of <= 3 characters',
    'thorough': '<= 3 variables with <= 3 extra triples, 4 variables with 3 '
                'extra (tree-shaped spine), all permutations and tops',
}
ASSUMPTIONS = [
    'graph labels are catalogue entries chosen by the solver (triples are '
    'dict keys in penman); constants 0, 0.0, -1, "x", a quoted string and '
    'None are in the catalogue; the every-constant-is-written clause is '
    'decided on _format_edge with a symbolic target (None / int in [-4,4] / '
    'float catalogue / any string of <= 3 characters)',
    'float formatting is str(float) (not examined)',
]
OUTSIDE = ['graphs beyond the variable/triple bound; random larger graphs']

CONSTS = {'full': ['x', 0, 0.0, -1, '"s t"', None], 'min': ['x'], 'vars': []}
CONCEPTS = {'full': ['x', None, 'a'], 'min': ['x'], 'vars': ['x']}
ROLES = {'default': [':r', ':r-of', ':q'],
         'amr': [':ARG0', ':ARG0-of', ':consist-of'],
         'custom': [':r', ':r-of', ':s-of']}


def h_encode_decode(model: str, nv: int, ne: int, labels: str, perm: str,
                    **sym):
    from penman.graph import Graph
    real, ref = models.get(model)
    roles = ROLES[model] if labels == 'full' else ROLES[model][:2]
    if labels == 'vars':     # edges between variables only, one plain role:
        roles = roles[:1]    # re-entrancies and cycles (inversion is then
        #                      the encoder's own doing)
    triples = progs.graph_program(sym, nv, ne, roles, CONSTS[labels],
                                  CONCEPTS[labels])
    # distinct triples
    for i in range(len(triples)):
        for j in range(i):
            assume(triples[i] != triples[j])
    ti = sym['top']
    bound_int(ti, 0, nv)
    top = progs.pick(ti, progs.VARS[:nv])
    assume(graphcheck.is_connected(triples, top))
    # no inverted/plain self-loop pair ambiguity: keep self-loops out
    for s, r, t in triples:
        assume(not (r != ':instance' and s == t))
    # distinct also after deinversion (a :r b) vs (b :r-of a) denote the
    # same edge: the statement is about well-formed graphs (triples distinct)
    variables = set(progs.VARS[:nv])
    normed = graphcheck.norm_triples(triples, variables, ref)
    for i in range(len(normed)):
        for j in range(i):
            assume(normed[i] != normed[j])
    if perm == 'full':
        ordered = progs.permute(triples, sym)
    elif perm == 'natural':
        # as a user (or a decoder) lists them: the other triples in a
        # symbolic order, each variable's instance triple right after the
        # first triple that mentions the variable (the top's comes first)
        inst = {t[0]: t for t in triples[:nv]}
        ordered = [inst.pop(top)]
        for tr in progs.permute(triples[nv:], sym):
            ordered.append(tr)
            for v in (tr[0], tr[2]):
                if v in inst:
                    ordered.append(inst.pop(v))
        ordered += list(inst.values())
    else:   # instance triples first, only the other triples permuted
        ordered = triples[:nv] + progs.permute(triples[nv:], sym)
    if any(isinstance(t, (int, float)) and not t
           for _, r, t in triples if r != ':instance'):
        mark('zero-constant')
    if top != ordered[0][0]:
        mark('top-not-first')
    g = Graph(ordered)
    graphcheck.encode_decode(g, top, real, ref, ordered, (ordered, top))


h_encode_decode.params_for = lambda fixed: {
    k: v for k, v in {
        **progs.graph_params(fixed['nv'], fixed['ne']), 'top': int,
        **progs.perm_params(fixed['nv'] + fixed['ne']
                            if fixed['perm'] == 'full' else fixed['ne'])
    }.items() if k not in fixed}


FLOATS = [0.0, -0.0, 1.5, -2.0, 1e300, float('inf')]


def h_decoded_newtop(n: int, **sym):
    """Graphs WITH layout markers (decoded trees), every variable as top."""
    from vflib.props.c05 import h_newtop_encode
    h_newtop_encode(n, **sym)


def _dn_params(fixed):
    from vflib.props.c05 import h_newtop_encode
    return h_newtop_encode.params_for(fixed)


h_decoded_newtop.params_for = _dn_params


def h_format_edge(role_i: int, kind: int, ival: int, fidx: int, sval: str,
                  indent_i: int):
    """The formatter writes every atomic target it is given.  The target is
    None, a symbolic int in [-4, 4] (str() of an unbounded symbolic int is
    realised by CrossHair and would never exhaust), a float from a catalogue
    or a symbolic string of <= 3 characters."""
    from penman._format import _format_edge
    bound_int(role_i, 0, 3)
    role = progs.pick(role_i, [':r', 'q', '/'])
    bound_int(indent_i, 0, 3)
    indent = progs.pick(indent_i, [None, -1, 2])
    bound_int(kind, 0, 4)
    if kind == 0:
        target = None
    elif kind == 1:
        bound_int(ival, -4, 5)
        target = ival
    elif kind == 2:
        bound_int(fidx, 0, len(FLOATS))
        target = progs.pick(fidx, FLOATS)
    else:
        assume(len(sval) <= 3)
        target = sval
    try:
        out = _format_edge((role, target), indent, 0, set())
    except Exception as exc:
        raise Violation(f'{type(exc).__name__}: {exc}', role, target)
    want_role = role if (role == '/' or role.startswith(':')) else ':' + role
    if target is None or (isinstance(target, str) and target == ''):
        mark('empty')
        require(out == want_role, 'empty target', role, target, out)
    else:
        if kind in (1, 2) and target == 0:
            mark('zero')
        require(out == want_role + ' ' + str(target),
                'atomic target not written', role, target, out)


def obligations(tier: str) -> List[dict]:
    obs = []

    def gp(model, nv, ne, labels, perm, timeout, marks=None, **fx):
        fixed = {'model': model, 'nv': nv, 'ne': ne, 'labels': labels,
                 'perm': perm, **fx}
        obs.append({'name': f'E2 encode/decode model={model} nv={nv} '
                            f'ne={ne} labels={labels} perm={perm} {fx}',
                    'kind': 'e2',
                    'fn': 'h_encode_decode', 'fixed': fixed,
                    'timeout': timeout,
                    'bound': f'{nv} variables, {ne} extra triples, {labels} '
                             f'catalogues, permutations: {perm}',
                    'need_marks': marks or []})

    obs.append({'name': 'E2 _format_edge symbolic target', 'kind': 'e2',
                'fn': 'h_format_edge', 'fixed': {},
                'timeout': 300 if tier == 'quick' else 1500,
                'bound': 'target: None, int in [-4,4], 6 floats, str <= 3 chars',
                'need_marks': ['zero', 'empty']})
    if tier == 'quick':
        for m in ('default', 'amr', 'custom'):
            gp(m, 1, 1, 'full', 'full', 100,
               ['zero-constant'] if m == 'default' else [])
            gp(m, 2, 1, 'full', 'full', 300,
               ['top-not-first'] if m == 'default' else [])
        for s0 in (0, 1):
            gp('default', 2, 2, 'min', 'full', 400, e0_s=s0)
        for top in (0, 1, 2):
            gp('default', 3, 2, 'min', 'extras', 400, top=top)
        gp('default', 2, 2, 'full', 'extras', 400, e0_s=0, e0_t=1)
        for top in (0, 1, 2):
            gp('default', 3, 3, 'vars', 'extras', 400, top=top)
            gp('default', 3, 3, 'vars', 'natural', 400, top=top)
        for ops in [(0, 1), (1, 0), (1, 1), (1, 2)]:
            obs.append({'name': f'E2 decoded graph (markers), every top, '
                                f'n=3 ops={ops}', 'kind': 'e2',
                        'fn': 'h_decoded_newtop',
                        'fixed': {'n': 3, 'i0_op': ops[0], 'i1_op': ops[1]},
                        'timeout': 400, 'bound': '<= 3 branches',
                        'need_marks': ['new-top'] if ops == (1, 1) else []})
    else:
        for m in ('default', 'amr', 'custom'):
            gp(m, 1, 1, 'full', 'full', 300)
            gp(m, 2, 1, 'full', 'full', 900)
            for s0 in (0, 1):
                gp(m, 2, 2, 'min', 'full', 1800, e0_s=s0)
            gp(m, 2, 2, 'full', 'extras', 1800, e0_s=0, e0_t=1)
            for top in (0, 1, 2):
                gp(m, 3, 2, 'min', 'extras', 1800, top=top)
        for top in (0, 1, 2):
            for s0 in (0, 1, 2):
                gp('default', 3, 2, 'min', 'full', 1800, top=top, e0_s=s0)
                gp('default', 3, 3, 'min', 'extras', 1800, top=top, e0_s=s0)
        for ops in [(0, 1), (1, 0), (1, 1), (1, 2)]:
            for op2 in (0, 1):
                obs.append({'name': f'E2 decoded graph (markers), every top, '
                                    f'n=4 ops={ops + (op2,)}', 'kind': 'e2',
                            'fn': 'h_decoded_newtop',
                            'fixed': {'n': 4, 'i0_op': ops[0],
                                      'i1_op': ops[1], 'i2_op': op2},
                            'timeout': 1800, 'bound': '<= 4 branches'})
    return obs


LEVEL_TEXT = ('Bounded model checking: every well-formed connected graph up '
              'to the bound, in every order of its triple list and from every '
              'top, is encoded and decoded by the real code and must keep its '
              'top, variables and triples (up to one deinversion, constants '
              'by written form); _format_edge is executed on a fully symbolic '
              'target.')
LEVEL_NOTE = ('Bounded by variable/triple count and catalogues; permutations '
              'and tops are symbolic. Trusted: CrossHair/z3; every path '
              're-validated natively.')
TECHNIQUE = ('CrossHair/z3 bounded symbolic execution of encode/decode over '
             'solver-chosen graph programs, permutations and tops')
