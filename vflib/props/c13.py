"""
C13  Role inversion and canonicalisation obey their algebra under every
model.

E2: the real Model methods on a symbolic role string (default, no-op, custom
tables) and on structured AMR roles (base from a catalogue computed from the
live table, k x "-of"); tree clause over tree programs.
E1: on each live role table, no defined role is the "-of" extension of
another defined role (otherwise inversion is ambiguous).
"""

from __future__ import annotations

from typing import List

from vflib import models, progs, rx
from vflib.engine import (Violation, assume, bound_int, chars_not_in, mark,
                          require)
from vflib.progs import NO_CONCEPT

ID = 'C13'
FUNCTIONS = ['penman.model.Model.__init__ (_role_re)',
             'penman.model.Model._has_role', 'penman.model.Model.has_role',
             'penman.model.Model.is_role_inverted',
             'penman.model.Model.invert_role', 'penman.model.Model.invert',
             'penman.model.Model.deinvert',
             'penman.model.Model.canonicalize_role',
             'penman.model.Model._canonicalize_inversion',
             'penman.model.Model.canonicalize',
             'penman.models.noop.NoOpModel.deinvert',
             'penman.transform.canonicalize_roles',
             'penman.transform._canonicalize_node']
BOUNDS = {
    'quick': 'role strings of <= 7 characters (5 for the custom table; any '
             'Unicode, no LF) under default/no-op/custom; AMR: every catalogue base x k in 0..4; '
             'trees of <= 2 branches',
    'thorough': 'role strings <= 9 characters; trees <= 3 branches',
}
ASSUMPTIONS = [
    'role strings contain no LF (CrossHair models $ as end-of-string only; '
    'natively ":TOP\\n" also matches the role pattern - recorded, not '
    'claimed)',
    'AMR roles are structured (base + k x "-of") because a fully symbolic '
    'string through the 100-way role alternation does not finish',
    '"removes inversions only in pairs" is read as stated: the result (before '
    'normalisation) differs from the colon-prefixed input by an even number '
    'of "-of" suffixes',
]
OUTSIDE = ['randomly generated role tables (re.compile on a symbolic pattern '
           'is a C boundary)']


def _strip_of(role, k):
    for _ in range(k):
        if not role.endswith('-of'):
            return None
        role = role[:len(role) - 3]
    return role


def check_laws(real, ref, role, noop):
    try:
        c = real.canonicalize_role(role)
        cc = real.canonicalize_role(c)
    except Exception as exc:
        raise Violation(f'{type(exc).__name__}: {exc}', role)
    require(cc == c, 'canonicalize_role is not idempotent', role, c, cc)
    require(c == '/' or c.startswith(':'), 'no leading colon', role, c)
    colon = role if (role == '/' or role.startswith(':')) else ':' + role
    # pairs only + normalisation last
    norms = ref.normalizations
    ok = False
    for j in range(0, 5):
        x = _strip_of(colon, 2 * j)
        if x is None:
            break
        if norms.get(x, x) == c:
            ok = True
            break
    if not ok and norms.get(colon + '-of-of', colon + '-of-of') == c:
        ok = True
        mark('pair-added')
    require(ok, 'canonical role is not input minus an even number of '
            'inversions, normalised', role, c)
    # defined roles are never inverted
    if ref.defines(role):
        mark('defined')
        require(not real.is_role_inverted(role),
                'a defined role is considered inverted', role)
    require(real.is_role_inverted(role) == ref.is_inverted(role),
            'is_role_inverted differs from reference', role)
    # on canonical roles: involution and flip
    inv = real.invert_role(c)
    back = real.invert_role(inv)
    require(back == c, 'invert_role is not an involution on a canonical role',
            role, c, inv, back)
    require(real.is_role_inverted(inv) != real.is_role_inverted(c),
            'inverting does not flip inverted-ness', role, c, inv)
    # triples
    t = ('s', c, 't')
    it = real.invert(t)
    require(it == ('t', inv, 's'), 'invert does not swap', t, it)
    dt = real.deinvert(t)
    if noop:
        require(dt == t, 'no-op deinvert is not the identity', t, dt)
    elif real.is_role_inverted(c):
        mark('inverted')
        require(dt == it, 'deinvert != invert on an inverted triple', t, dt)
    else:
        require(dt == t, 'deinvert changed a non-inverted triple', t, dt)
    require(real.canonicalize(('s', role, 't')) == ('s', c, 't'),
            'canonicalize(triple)', role)
    # the answers depend on the role only, not on earlier calls about
    # related roles (a memo primed by one call must not change another)
    first = (real.is_role_inverted(role), real.invert_role(role),
             real.has_role(role))
    for rel in (role + '-of', role[:len(role) - 3]
                if role.endswith('-of') else role + '-of-of'):
        real.invert_role(rel)
        real.canonicalize_role(rel)
        real.is_role_inverted(rel)
    again = (real.is_role_inverted(role), real.invert_role(role),
             real.has_role(role))
    require(again == first, 'role predicates changed after calls about '
            'related roles', role, first, again)


def h_role_laws(model: str, body: str, colon: bool, maxlen: int):
    """role = ':' + body, or (no colon) 'r' + body / the empty role.  A raw
    symbolic string (no concatenation) through the role regex trips a
    CrossHair internal error (SymbolicBoundedIntTuple), hence the concrete
    first character in the colon-less case."""
    real, ref = models.get(model)
    assume(len(body) <= maxlen)
    chars_not_in(body, '\n')
    role = (':' + body) if colon else ('r' + body)
    check_laws(real, ref, role, model == 'noop')
    if not colon:
        check_laws(real, ref, '', model == 'noop')


def h_overlap_laws(body: str, maxlen: int):
    """A table that defines both :p and :p-of.  Inverting :p is ambiguous in
    such a table and is left out (DESIGN section 6), but every clause that
    does not depend on it still holds: a defined role whose "+ -of" form is
    not defined is never inverted, its inverse is that "+ -of" form, which is
    inverted and deinverts to the original triple; an undefined role ending
    in -of is inverted and loses exactly one -of."""
    from penman.model import Model
    from vflib.oracles import RefModel
    roles = {':p': {}, ':p-of': {}}
    real, ref = Model(roles=roles), RefModel(list(roles), True)
    assume(len(body) <= maxlen)
    chars_not_in(body, '\n')
    role = ':p' + body
    if ref.defines(role):
        mark('defined')
        require(not real.is_role_inverted(role),
                'a defined role is considered inverted', role)
        if not ref.defines(role + '-of'):
            mark('defined-unambiguous')
            inv = real.invert_role(role)
            require(inv == role + '-of', 'inverse of a defined role is not '
                    'role + -of', role, inv)
            require(real.is_role_inverted(inv),
                    'inverse of a defined role is not inverted', role, inv)
            t = ('s', role, 't')
            back = real.deinvert(real.invert(t))
            require(back == t, 'deinvert(invert(t)) != t', t, back)
    elif role.endswith('-of'):
        mark('inverted')
        require(real.is_role_inverted(role),
                'an undefined role ending in -of is not inverted', role)
        inv = real.invert_role(role)
        require(inv == role[:len(role) - 3],
                'inverse of an inverted role is not the role minus one -of',
                role, inv)


def amr_catalogue():
    """Bases computed from the live AMR table."""
    from penman.models import amr
    bases = []
    for r in amr.roles:
        if r.endswith('-of'):
            bases.append(r)                     # -of by definition
            bases.append(r[:len(r) - 3])        # its undefined stem
    bases += [':ARG0', ':op12', ':snt3', ':mod', ':domain', ':polarity']
    bases += list(amr.normalizations)           # :mod-of, :domain-of
    bases += list(amr.normalizations.values())
    bases += [':foo', 'ARG1', 'mod', '', ':', ':TOP', ':instance', '/']
    out = []
    for b in bases:
        if b not in out:
            out.append(b)
    return out


def h_amr_laws(bi: int, k: int):
    real, ref = models.get('amr')
    cat = amr_catalogue()
    bound_int(bi, 0, len(cat))
    bound_int(k, 0, 5)
    base = progs.pick(bi, cat)
    role = base
    for j in range(4):
        if k > j:
            role = role + '-of'
    if base != '/':
        check_laws(real, ref, role, False)
    else:
        assume(k == 0)
        require(real.canonicalize_role('/') == '/', 'slash role changed')


# the same role text occurs with different alignments and without one (a
# rewrite keyed by role text must not leak an alignment to another edge)
ROLES = {
    'default': [':r', ':r~1', ':r-of-of', 'q-of~1', ':r-of-of-of~e.2',
                ':r~e.3'],
    'amr': [':ARG0-of-of', ':domain-of~1', 'mod-of', ':consist-of-of-of',
            ':domain-of', ':domain-of~e.2'],
    'custom': [':s-of-of-of', ':t-of~1', 'q1', ':r-of-of', ':t-of~e.2',
               ':t-of'],
    'noop': [':r', ':r~1', ':r-of-of', 'q-of~1', ':r-of-of-of~e.2',
             ':r~e.3'],
}


def h_tree_clause(model: str, n: int, **sym):
    from penman import transform
    from penman.tree import Tree
    from vflib.oracles import split_role_alignment
    real, ref = models.get(model)
    node = progs.tree_program(sym, n, ROLES[model], ['a', 'x~3'],
                              [NO_CONCEPT, 'y~1'])
    t = Tree(progs.copy_tree(node), metadata={'id': '7'})
    try:
        t2 = transform.canonicalize_roles(t, real)
        t3 = transform.canonicalize_roles(t2, real)
    except Exception as exc:
        raise Violation(f'{type(exc).__name__}: {exc}', node)
    require(t.node == node, 'canonicalize_roles modified its argument', node)
    require(t3.node == t2.node, 'canonicalize_roles not idempotent', node,
            t2.node, t3.node)
    require(t2.metadata == {'id': '7'}, 'metadata lost')

    def same_shape(a, b):
        require(a[0] == b[0] and len(a[1]) == len(b[1]), 'shape changed',
                node, t2.node)
        for (ra, ta), (rb, tb) in zip(a[1], b[1]):
            ra0, alna = split_role_alignment(ra)
            rb0, alnb = split_role_alignment(rb)
            require(alna == alnb, 'role alignment changed', ra, rb)
            if ra0 == '/':
                require(rb0 == '/', 'concept role changed', ra, rb)
            else:
                require(rb0 == real.canonicalize_role(ra0),
                        'role is not the canonical form', ra, rb)
                if rb0 != ra0:
                    mark('role-changed')
            if isinstance(ta, tuple):
                require(isinstance(tb, tuple), 'target changed', ta, tb)
                same_shape(ta, tb)
            else:
                require(ta == tb, 'target changed', ta, tb)

    same_shape(node, t2.node)


h_tree_clause.params_for = lambda fixed: {
    k: v for k, v in progs.tree_params(fixed['n']).items() if k not in fixed}


def e1_tables():
    """No defined role is the '-of' extension of another defined role."""
    import re
    L = rx.Lemmas()
    from penman.models import amr
    tables = {'amr': list(amr.roles), 'custom': list(models.CUSTOM_ROLES)}
    for name, pats in tables.items():
        try:
            roles = rx.union(*[rx.from_python(p, 0, 'strict') for p in pats],
                             rx.lit(':TOP'), rx.lit(':instance'))
        except rx.Untranslatable as exc:
            L.errors.append({'message': f'untranslatable: {exc}'})
            continue
        L.empty(f'{name}: no role is another role + "-of"',
                rx.intersect(rx.concat(roles, rx.lit('-of')), roles),
                replay_fn='replay_table')
        L.nonempty(f'{name}: table is inhabited', roles)
    return L.result()


def replay_table(s: str, lemma: str):
    name = lemma.split(':')[0]
    real, ref = models.get(name)
    require(not (real._has_role(s) and s.endswith('-of')
                 and real._has_role(s[:len(s) - 3])), lemma, s)


def obligations(tier: str) -> List[dict]:
    obs = [{'name': 'E1 role tables: no role is another role + -of',
            'kind': 'e1', 'fn': 'e1_tables', 'timeout': 120,
            'bound': 'unbounded length'}]

    def laws(model, colon, maxlen, timeout, marks=None):
        obs.append({'name': f'E2 role laws model={model} colon={colon} '
                            f'len<={maxlen}', 'kind': 'e2',
                    'fn': 'h_role_laws',
                    'fixed': {'model': model, 'colon': colon,
                              'maxlen': maxlen}, 'timeout': timeout,
                    'bound': f'role body <= {maxlen} chars',
                    'need_marks': marks or []})

    def tree(model, n, timeout, marks=None, **fx):
        obs.append({'name': f'E2 tree clause model={model} n={n} {fx}',
                    'kind': 'e2', 'fn': 'h_tree_clause',
                    'fixed': {'model': model, 'n': n, **fx},
                    'timeout': timeout, 'bound': f'<= {n} branches',
                    'need_marks': marks or []})

    obs.append({'name': 'E2 overlapping table {:p, :p-of}: unambiguous '
                        'clauses', 'kind': 'e2', 'fn': 'h_overlap_laws',
                'fixed': {'maxlen': 6 if tier == 'quick' else 9},
                'timeout': 300 if tier == 'quick' else 1500,
                'bound': 'role = :p + body, body <= %d chars'
                         % (6 if tier == 'quick' else 9),
                'need_marks': ['defined', 'defined-unambiguous', 'inverted']})
    ncat = len(amr_catalogue())
    if tier == 'quick':
        for m in ('default', 'noop', 'custom'):
            laws(m, True, 5 if m == 'custom' else 7, 400,
                 ['inverted'] if m != 'noop' else [])
            laws(m, False, 3, 300)
        obs.append({'name': f'E2 AMR structured roles ({ncat} bases x k<=4)',
                    'kind': 'e2', 'fn': 'h_amr_laws', 'fixed': {},
                    'timeout': 400, 'bound': f'{ncat} bases, k in 0..4',
                    'need_marks': ['defined', 'inverted', 'pair-added']})
        for m in ('default', 'amr', 'custom', 'noop'):
            tree(m, 2, 300, ['role-changed'])
    else:
        for m in ('default', 'noop', 'custom'):
            laws(m, True, 9, 1800, ['inverted'] if m != 'noop' else [])
            laws(m, False, 5, 1800)
        obs.append({'name': f'E2 AMR structured roles ({ncat} bases x k<=4)',
                    'kind': 'e2', 'fn': 'h_amr_laws', 'fixed': {},
                    'timeout': 1500, 'bound': f'{ncat} bases, k in 0..4',
                    'need_marks': ['defined', 'inverted', 'pair-added']})
        for m in ('default', 'amr', 'custom', 'noop'):
            tree(m, 2, 900, ['role-changed'])
            for op in (0, 1):
                for r0 in range(6):
                    tree(m, 3, 1800, i0_op=op, i0_r=r0)
    return obs


LEVEL_TEXT = ('Bounded model checking: the real Model methods are executed '
              'on a symbolic role string (any Unicode, bounded length) for '
              'small tables and on structured roles for the AMR table; the '
              'laws of the property are asserted on every path. E1 decides at '
              'unbounded length that no live role table is ambiguous under '
              'inversion.')
LEVEL_NOTE = ('Bounded by role length / k; no LF in roles; shim S1 for '
              'negative slice bounds. Trusted: CrossHair regex model, z3; '
              'every path re-validated natively.')
TECHNIQUE = ('CrossHair/z3 bounded symbolic execution of the Model role '
             'methods on symbolic role strings + z3 regex algebra on the '
             'live role tables')
