"""
C18  Constant quoting, evaluation and typing are consistent with the notation.

E1 (unbounded): the language json.dumps(str) can emit (ensure_ascii) is
  inside the live STRING token language, which is prefix-free and starts with
  a quote - so the lexer reads a quoted value as exactly one STRING token;
  the JSON number language is inside the SYMBOL language.
E2 (bounded): quote/evaluate/type on strings assembled from a solver-indexed
  alphabet (json is a C boundary, so characters are chosen by symbolic index
  and the text is concrete when it reaches json), against a reference reading
  of JSON numbers/strings; the quoted text goes through the real lexer.
"""

from __future__ import annotations

import re
from typing import List

from vflib import progs, rx
from vflib.engine import Violation, assume, bound_int, mark, require

ID = 'C18'
FUNCTIONS = ['penman.constant.quote', 'penman.constant.evaluate',
             'penman.constant.type', 'penman._lexer.PATTERNS[STRING]',
             'penman._lexer.PATTERNS[SYMBOL]', 'penman._lexer.lex']
BOUNDS = {
    'quick': 'E1 unbounded; E2: strings of <= 3 characters over a '
             '20-character alphabet for quote, atoms of <= 3 characters over '
             'a 22-character alphabet for evaluate/type (4 with a fixed first '
             'character class in thorough)',
    'thorough': 'E2: quote <= 4 characters, atoms <= 4 characters',
}
ASSUMPTIONS = [
    'json (C accelerated) is environment: its inputs are made concrete by '
    'solver-chosen alphabet indices; the JSON string/number grammars used by '
    'E1 and by the reference are transcribed from RFC 8259 / the json docs',
]
OUTSIDE = ['characters outside the alphabets in E2 (E1 covers the token '
           'language for all characters <= U+2FFFF)', 'long strings']

Q_ALPHA = ['a', '"', '\\', '\n', '\r', '\t', '\x00', '\x1f', ' ', '(', ')',
           '/', ':', '~', '#', 'é', ' ', '\x85', '\U0001F600', '\x7f']
E_ALPHA = ['0', '1', '9', '-', '+', '.', 'e', 'E', '"', '\\', 'a', 'n', 'N',
           'u', '[', ']', '{', '}', ' ', 't', 'I', ',']

NUM_RE = re.compile(r'-?(?:0|[1-9][0-9]*)(\.[0-9]+)?([eE][+-]?[0-9]+)?')


def _text(sym, n, alpha, prefix='c'):
    out = ''
    ln = sym['len']
    bound_int(ln, 0, n + 1)
    for i in range(n):
        if ln > i:
            ci = sym[f'{prefix}{i}']
            bound_int(ci, 0, len(alpha))
            out += progs.pick(ci, alpha)
    return out


def h_quote(n: int, **sym):
    from penman import constant
    from penman._lexer import lex
    s = _text(sym, n, Q_ALPHA)
    from vflib.engine import case
    case(s)
    try:
        q = constant.quote(s)
        back = constant.evaluate(q)
        typ = constant.type(q)
        toks = list(lex([q]))
    except Exception as exc:
        raise Violation(f'{type(exc).__name__}: {exc}', s)
    require(len(toks) == 1 and toks[0].type == 'STRING'
            and toks[0].text == q and toks[0].offset == 0,
            'quoted text is not exactly one STRING token', s, q, toks)
    require(back == s and isinstance(back, str),
            'evaluate(quote(s)) != s', s, q, back)
    require(typ == constant.STRING, 'type(quote(s)) is not STRING', s, typ)
    if any(c in s for c in '"\\\n'):
        mark('needs-escape')
    # inside a graph: one atom
    import penman
    t = penman.parse('(a / b :c ' + q + ')')
    require(t.node == ('a', [('/', 'b'), (':c', q)]), 'quoted text is not '
            'one atom in a graph', s, q, t.node)


h_quote.params_for = lambda fixed: {
    k: v for k, v in {'len': int, **{f'c{i}': int for i in
                                     range(fixed['n'])}}.items()
    if k not in fixed}


def h_quote_other(ival: int, fi: int):
    from penman import constant
    bound_int(ival, -3, 4)
    bound_int(fi, 0, 5)
    # concrete by case split (a symbolic int used as a dict key inside
    # quote() would trip CrossHair's subscript interception)
    ival = progs.pick(ival + 3, [-3, -2, -1, 0, 1, 2, 3])
    f = progs.pick(fi, [1.5, 0.0, -2.25, 1e22, 1.0])
    require(constant.quote(None) == '""', 'quote(None)')
    require(constant.quote(ival) == constant.quote(str(ival)), 'quote(int)')
    require(constant.quote(f) == constant.quote(str(f)), 'quote(float)')
    require(constant.evaluate(constant.quote(ival)) == str(ival),
            'a quoted number evaluates to its string form')
    require(constant.evaluate(constant.quote(f)) == str(f),
            'a quoted float evaluates to its string form')
    # equal-but-different constants (1 / 1.0 / True-like) quote differently,
    # in either order of the calls
    require(constant.quote(ival) == constant.quote(str(ival)),
            'quote(int) after quote(float)')


def ref_evaluate(text):
    """('none',) | ('int', v) | ('float', v) | ('str', v) | ('error',)"""
    if text is None or text == '':
        return ('none',)
    if text.startswith('"') != text.endswith('"'):
        return ('error',)
    if text in ('true', 'false', 'null'):
        return ('str', text)
    m = NUM_RE.fullmatch(text)
    if m:
        if m.group(1) or m.group(2):
            return ('float', float(text))
        return ('int', int(text))
    if len(text) >= 2 and text[0] == '"' and text[-1] == '"':
        body = text[1:-1]
        out = []
        i = 0
        ok = True
        while i < len(body):
            c = body[i]
            if c == '"' or ord(c) < 0x20:
                ok = False
                break
            if c == '\\':
                if i + 1 >= len(body):
                    ok = False
                    break
                e = body[i + 1]
                simple = {'"': '"', '\\': '\\', '/': '/', 'b': '\b',
                          'f': '\f', 'n': '\n', 'r': '\r', 't': '\t'}
                if e in simple:
                    out.append(simple[e])
                    i += 2
                    continue
                ok = False   # \uXXXX needs 6 characters: beyond the bound
                break
            out.append(c)
            i += 1
        if ok:
            return ('str', ''.join(out))
        return ('str', text)     # not JSON: stays a symbol, unchanged
    # other JSON values
    stripped = text.strip(' \t\n\r')
    if stripped[:1] in ('[', '{') and _is_json_container(stripped):
        return ('error',)
    if stripped in ('NaN', 'Infinity', '-Infinity'):
        return ('str', stripped)     # parse_constant=str
    if stripped != text:
        # JSON tolerates surrounding blanks: ' 1' is the number 1
        inner = ref_evaluate(stripped)
        if inner[0] in ('int', 'float'):
            return inner
        if inner[0] == 'str' and stripped[:1] == '"' and \
                inner[1] != stripped:
            # a JSON string padded with JSON white space (not an atom the
            # lexer can produce): json reads it as the string
            return inner
        if inner[0] == 'str' and stripped in ('true', 'false', 'null'):
            return ('json-literal', stripped)
    return ('str', text)


def _is_json_container(s):
    import json
    try:
        v = json.loads(s)
    except ValueError:
        return False
    return isinstance(v, (list, dict))


def h_evaluate(n: int, **sym):
    from penman import constant
    from penman.exceptions import ConstantError
    text = _text(sym, n, E_ALPHA)
    from vflib.engine import case
    case(text)
    try:
        v = constant.evaluate(text)
        got = ('ok', v)
    except ConstantError:
        got = ('error',)
    except Exception as exc:
        raise Violation(f'{type(exc).__name__} escaped evaluate: {exc}', text)
    want = ref_evaluate(text)
    if got[0] == 'ok':
        v = got[1]
        require(v is None or isinstance(v, (str, int, float)),
                'evaluate returned a container', text, v)
        require(not isinstance(v, bool), 'evaluate returned a bool', text)
        require(not (isinstance(v, float) and v != v), 'evaluate returned '
                'NaN', text)
    if want[0] == 'json-literal':
        # ' true' is JSON true: the property forbids bools; anything else
        # (symbol unchanged, or the constant error) is acceptable
        return
    if want[0] == 'none':
        require(got == ('ok', None), 'empty atom is None', text, got)
    elif want[0] == 'error':
        mark('constant-error')
        require(got == ('error',), 'constant error expected', text, got)
    elif want[0] == 'int':
        mark('int')
        require(got[0] == 'ok' and type(got[1]) is int and got[1] == want[1],
                'integer syntax must evaluate to int', text, got)
    elif want[0] == 'float':
        mark('float')
        require(got[0] == 'ok' and type(got[1]) is float
                and got[1] == want[1], 'float syntax must evaluate to float',
                text, got)
    else:
        require(got[0] == 'ok' and type(got[1]) is str and got[1] == want[1],
                'symbol/string evaluation', text, got, want)
    # type() agrees with the Python type of the evaluated value
    try:
        typ = constant.type(text)
        tgot = ('ok', typ)
    except ConstantError:
        tgot = ('error',)
    except Exception as exc:
        raise Violation(f'{type(exc).__name__} escaped type: {exc}', text)
    require((tgot[0] == 'error') == (got[0] == 'error'),
            'type() and evaluate() disagree on the constant error', text)
    if got[0] == 'ok':
        v = got[1]
        if v is None:
            w = constant.NULL
        elif type(v) is int:
            w = constant.INTEGER
        elif type(v) is float:
            w = constant.FLOAT
        elif text.startswith('"') and text.endswith('"'):
            w = constant.STRING
        else:
            w = constant.SYMBOL
        require(tgot[1] == w, 'type() does not match the evaluated value',
                text, v, tgot[1])
    require(constant.type(None) == constant.NULL
            and constant.evaluate(None) is None, 'None')


h_evaluate.params_for = h_quote.params_for


# ---- E1 -------------------------------------------------------------------------

def json_string_output():
    """json.dumps(str) with ensure_ascii=True emits: quote, then printable
    ASCII except quote and backslash, two-character escapes, \\uXXXX, quote."""
    hexd = rx.union(rx.char_range(0x30, 0x39), rx.char_range(0x61, 0x66))
    plain = z3diff(rx.char_range(0x20, 0x7e), rx.any_of(['"', '\\']))
    esc2 = rx.concat(rx.lit('\\'), rx.any_of(list('"\\bfnrt')))
    escu = rx.concat(rx.lit('\\u'), hexd, hexd, hexd, hexd)
    return rx.concat(rx.lit('"'), rx.star(rx.union(plain, esc2, escu)),
                     rx.lit('"'))


def z3diff(a, b):
    import z3
    return z3.Diff(a, b)


def json_number():
    d = rx.char_range(0x30, 0x39)
    d19 = rx.char_range(0x31, 0x39)
    integer = rx.concat(rx.opt(rx.lit('-')),
                        rx.union(rx.lit('0'), rx.concat(d19, rx.star(d))))
    frac = rx.concat(rx.lit('.'), rx.plus(d))
    exp = rx.concat(rx.any_of(['e', 'E']), rx.opt(rx.any_of(['+', '-'])),
                    rx.plus(d))
    return rx.concat(integer, rx.opt(frac), rx.opt(exp))


def e1_languages():
    L = rx.Lemmas()
    from penman import _lexer
    try:
        string = rx.from_python(_lexer.PATTERNS['STRING'], re.VERBOSE)
        symbol = rx.from_python(_lexer.PATTERNS['SYMBOL'], re.VERBOSE)
        comment = rx.from_python(_lexer.PATTERNS['COMMENT'], re.VERBOSE)
    except rx.Untranslatable as exc:
        L.errors.append({'message': f'untranslatable: {exc}'})
        return L.result()
    L.empty('json.dumps(str) output is inside STRING',
            rx.difference(json_string_output(), string),
            replay_fn='replay_e1')
    L.empty('STRING is prefix-free (one token, never a longer or shorter '
            'one)', rx.intersect(string, rx.concat(
                string, rx.plus(rx.allchar()))), replay_fn='replay_e1')
    L.empty('a quoted value never starts a comment',
            rx.intersect(json_string_output(), rx.concat(comment, rx.full())),
            replay_fn='replay_e1')
    L.empty('JSON numbers are inside SYMBOL',
            rx.difference(json_number(), symbol), replay_fn='replay_e1')
    L.nonempty('json output language is inhabited', json_string_output())
    order = [n for _, n in sorted((i, n) for n, i in
                                  _lexer.PENMAN_RE.groupindex.items())]
    ok = order.index('STRING') < order.index('SYMBOL') and \
        order.index('STRING') < order.index('UNEXPECTED')
    res = L.result()
    res['queries'].append({'name': 'STRING is tried before SYMBOL and '
                           'UNEXPECTED', 'result': 'ok' if ok else 'mismatch'})
    if not ok:
        res['failures'].append({'kwargs': {'s': '""', 'lemma': 'order'},
                                'message': 'alternation order',
                                'replay_fn': 'replay_e1'})
    return res


def replay_e1(s: str, lemma: str):
    import json
    from penman import _lexer
    string = re.compile(_lexer.PATTERNS['STRING'], re.VERBOSE)
    symbol = re.compile(_lexer.PATTERNS['SYMBOL'], re.VERBOSE)
    if lemma.startswith('json.dumps'):
        require(string.fullmatch(s) is not None, lemma, s)
    elif lemma.startswith('STRING is prefix-free'):
        for k in range(1, len(s)):
            require(not (string.fullmatch(s) and string.fullmatch(s[:k])),
                    lemma, s)
    elif lemma.startswith('JSON numbers'):
        require(symbol.fullmatch(s) is not None, lemma, s)
    elif lemma.startswith('a quoted value'):
        require(not s.startswith('#'), lemma, s)
    else:
        toks = list(_lexer.lex(['""']))
        require(len(toks) == 1 and toks[0].type == 'STRING', lemma)


def obligations(tier: str) -> List[dict]:
    obs = [{'name': 'E1 quoted/number languages vs token patterns',
            'kind': 'e1', 'fn': 'e1_languages', 'timeout': 120,
            'bound': 'unbounded length'},
           {'name': 'E2 quote of numbers and None', 'kind': 'e2',
            'fn': 'h_quote_other', 'fixed': {}, 'timeout': 120,
            'bound': 'int in [-3,3], 5 floats'}]

    def add(fn, n, timeout, marks=None, **fx):
        obs.append({'name': f'E2 {fn} n={n} {fx}', 'kind': 'e2', 'fn': fn,
                    'fixed': {'n': n, **fx}, 'timeout': timeout,
                    'bound': f'<= {n} characters', 'need_marks': marks or []})

    if tier == 'quick':
        add('h_quote', 2, 300, ['needs-escape'])
        for c0 in range(len(Q_ALPHA)):
            add('h_quote', 3, 400, len=3, c0=c0)
        add('h_evaluate', 2, 300, ['int'])
        for c0 in range(len(E_ALPHA)):
            add('h_evaluate', 3, 400, len=3, c0=c0)
    else:
        add('h_quote', 2, 600, ['needs-escape'])
        for c0 in range(len(Q_ALPHA)):
            add('h_quote', 3, 900, len=3, c0=c0)
            for c1 in range(0, len(Q_ALPHA), 5):
                add('h_quote', 4, 1800, len=4, c0=c0, c1=c1)
        add('h_evaluate', 2, 600, ['int'])
        for c0 in range(len(E_ALPHA)):
            add('h_evaluate', 3, 900, len=3, c0=c0)
            for c1 in (0, 3, 5, 6, 8, 14):
                add('h_evaluate', 4, 1800, len=4, c0=c0, c1=c1)
    return obs


LEVEL_TEXT = ('E1 decides at unbounded length that everything json.dumps can '
              'emit for a string is exactly one STRING token for the live '
              'lexer patterns and that JSON numbers are symbols; E2 executes '
              'quote/evaluate/type (and the lexer/parser on the quoted text) '
              'on every string up to the bound over alphabets that contain '
              'every character class the code or json distinguishes.')
LEVEL_NOTE = ('json itself is trusted environment; E2 strings are concrete '
              'when they reach it (characters chosen by symbolic index). '
              'Reference reading of JSON numbers/strings is mine (RFC 8259).')
TECHNIQUE = ('z3 regex algebra (JSON string/number languages vs live token '
             'patterns) + CrossHair/z3 bounded execution of quote/evaluate/'
             'type over solver-indexed alphabets')
