"""
C16  Model checking is sound and complete, and --check reports it in the
exit status.

E2: Model.errors on solver-chosen triple lists / tops / models against an
independent role check and union-find reachability; decoded graphs only get
role errors; main() in-process (I/O stubbed by contract) over 1..3 inputs of
<= 2 graphs each, each graph compliant or not by a symbolic boolean.
"""

from __future__ import annotations

from typing import List

from vflib import cli, models, progs
from vflib.engine import Violation, assume, bound_int, mark, require
from vflib.progs import NO_CONCEPT

ID = 'C16'
FUNCTIONS = ['penman.model.Model.errors', 'penman.model._dfs',
             'penman.model.Model.has_role', 'penman.__main__._check',
             'penman.__main__.process', 'penman.__main__.main']
BOUNDS = {
    'quick': 'errors(): every list of <= 2 triples (3 for amr, sliced) over '
             'sources {a,b}, 5 roles, targets {a,b,x} x 5 tops x 3 models; '
             'tool: <= 3 inputs (stdin or files) x <= 2 graphs, every '
             'compliant/non-compliant pattern',
    'thorough': 'errors(): <= 3 triples all models; tool: 3 files x 2 graphs '
                'x 3 graph texts',
}
ASSUMPTIONS = [
    'the process environment (argv, stdin/stdout, open) is stubbed by '
    'contract; a real subprocess and real files are outside',
    'labels are catalogue indices',
]
OUTSIDE = ['argparse internals, encodings, real files/subprocess']

SRC = ['a', 'b']
ROLES = [':instance', ':ARG0', ':ARG0-of', ':ARG0-of-of', ':foo']
ROLES_CUSTOM = [':instance', ':r', ':s-of', ':s-of-of-of', ':q7-of']
TGT = ['a', 'b', 'x']
TOPS = [None, 'a', 'b', 'x', '']


def _roles(model):
    return ROLES_CUSTOM if model == 'custom' else ROLES


def ref_errors(triples, top, ref):
    err = {}

    def add(k, msg):
        err.setdefault(k, set()).add(msg)

    if not triples:
        add(None, 'graph is empty')
        return err
    sources = []
    for s, r, t in triples:
        ok = ref.defines(r) or (r.endswith('-of') and ref.defines(r[:-3]))
        if not ok:
            add((s, r, t), 'invalid role')
        if s not in sources:
            sources.append(s)
    eff_top = top if top is not None else triples[0][0]
    if not eff_top:
        add(None, 'top is not set')
    elif eff_top not in sources:
        add(None, 'top is not a variable in the graph')
    else:
        # union-find over sources
        parent = {v: v for v in sources}

        def find(x):
            while parent[x] != x:
                x = parent[x]
            return x

        for s, r, t in triples:
            if t in parent:
                parent[find(s)] = find(t)
        root = find(eff_top)
        for tr in triples:
            if find(tr[0]) != root:
                add(tr, 'unreachable')
    return err


def h_errors(model: str, n: int, **sym):
    from penman.graph import Graph
    real, ref = models.get(model)
    roles = _roles(model)
    triples = []
    for i in range(n):
        s, r, t = sym[f't{i}_s'], sym[f't{i}_r'], sym[f't{i}_t']
        bound_int(s, 0, len(SRC))
        bound_int(r, 0, len(roles))
        bound_int(t, 0, len(TGT))
        triples.append((progs.pick(s, SRC), progs.pick(r, roles),
                        progs.pick(t, TGT)))
    ti = sym['top']
    bound_int(ti, 0, len(TOPS))
    top = progs.pick(ti, TOPS)
    g = Graph(triples, top=top)
    try:
        got = real.errors(g)
    except Exception as exc:
        raise Violation(f'{type(exc).__name__}: {exc}', triples, top)
    want = ref_errors(triples, top, ref)
    got_sets = {k: set(v) for k, v in got.items()}
    if any('unreachable' in v for v in want.values()):
        mark('unreachable')
    if any('invalid role' in v for v in want.values()):
        mark('invalid-role')
    if not want:
        mark('clean')
    require(got_sets == want, 'error report differs', triples, top, got,
            want)
    for k, v in got.items():
        require(len(v) >= 1, 'empty message list', k)


h_errors.params_for = lambda fixed: {
    k: v for k, v in {**{f't{i}_{x}': int for i in range(fixed['n'])
                         for x in 'srt'}, 'top': int}.items()
    if k not in fixed}


def h_decoded(n: int, **sym):
    """A graph decoded from a text with a non-empty top node only ever gets
    role errors."""
    from penman import layout
    from penman.tree import Tree
    real, ref = models.get('amr')
    node = progs.tree_program(sym, n, [':ARG0', ':ARG0-of', ':foo',
                                       ':foo-of-of'],
                              ['a', 'b', 'x', None], [NO_CONCEPT, 'y', None])
    g = layout.interpret(Tree(progs.copy_tree(node)), real)
    try:
        got = real.errors(g)
    except Exception as exc:
        raise Violation(f'{type(exc).__name__}: {exc}', node)
    for k, msgs in got.items():
        require(k is not None and set(msgs) == {'invalid role'},
                'a decoded graph received a non-role error', node, k, msgs)
    want = ref_errors(list(g.triples), g.top, ref)
    if want:
        mark('role-error')
    require({k: set(v) for k, v in got.items()} == want, 'role errors', node,
            got, want)


h_decoded.params_for = lambda fixed: {
    k: v for k, v in progs.tree_params(fixed['n']).items() if k not in fixed}

GOOD = ['(a / alpha :ARG0 (b / beta))', '(c / gamma)']
BAD = ['(a / alpha :foo (b / beta) :ARG1 b)', '(c / gamma :bar-of-of 1)']
BAD_TRIPLES = [['(a :foo b)'], ['(c :bar-of-of 1)']]


def h_tool(nfiles: int, use_stdin: bool, sep: int, triples: bool, **sym):
    """penman --amr --check: exit status != 0 iff some graph in some input is
    non-compliant; every offending triple is recorded in that graph's
    metadata."""
    files = {}
    expect_bad = False
    expected_records = []
    for f in range(nfiles):
        ng = sym[f'f{f}_n']
        bound_int(ng, 0, 3)
        texts = []
        for gi in range(2):
            if ng > gi:
                bad = sym[f'f{f}_g{gi}_bad']
                bound_int(bad, 0, 2)
                if bad == 1:
                    texts.append(BAD[gi])
                    expect_bad = True
                    expected_records.append(BAD_TRIPLES[gi])
                else:
                    texts.append(GOOD[gi])
                    expected_records.append([])
        joiner = progs.pick(sep, ['\n\n', '\n', ' '])
        files[f'in{f}.txt'] = joiner.join(texts) + '\n'
    base = ['--amr', '--check', '--indent', 'no'] + (
        ['--triples'] if triples else [])
    if use_stdin:
        assume(nfiles == 1)
        argv = base
        code, out, err = cli.run_main(argv, stdin_text=files['in0.txt'])
    else:
        argv = base + sorted(files)
        code, out, err = cli.run_main(argv, files=files)
    if expect_bad:
        mark('non-compliant')
    else:
        mark('compliant')
    require((code != 0) == expect_bad, 'exit status does not report the '
            'check result', files, code)
    if triples:
        return   # a triple conjunction shows no metadata; status only
    # per graph: offending triples recorded in the metadata just above it
    lines = out.split('\n')
    graphs = []
    cur = []
    for ln in lines:
        if ln.startswith('#'):
            cur.append(ln)
        elif ln.startswith('('):
            graphs.append(cur)
            cur = []
    require(len(graphs) == len(expected_records), 'one output graph per '
            'input graph', files, out)
    for recs, meta in zip(expected_records, graphs):
        for rec in recs:
            require(any('::error-' in m and rec in m for m in meta),
                    'offending triple not recorded', rec, meta, out)
        if not recs:
            require(not any('::error-' in m for m in meta),
                    'error recorded on a compliant graph', meta)


def _tool_params(fixed):
    d = {}
    for f in range(fixed['nfiles']):
        d[f'f{f}_n'] = int
        for gi in range(2):
            d[f'f{f}_g{gi}_bad'] = int
    return {k: v for k, v in d.items() if k not in fixed}


h_tool.params_for = _tool_params


def obligations(tier: str) -> List[dict]:
    obs = []

    def add(fn, name, timeout, marks=None, **fx):
        obs.append({'name': f'E2 {name} {fx}', 'kind': 'e2', 'fn': fn,
                    'fixed': fx, 'timeout': timeout, 'bound': str(fx),
                    'need_marks': marks or []})

    if tier == 'quick':
        for m in ('default', 'amr', 'custom'):
            add('h_errors', 'errors', 120, model=m, n=0)
            add('h_errors', 'errors', 300, model=m, n=1)
            for top in range(len(TOPS)):
                add('h_errors', 'errors', 400,
                    (['unreachable', 'invalid-role']
                     + (['clean'] if m != 'default' else []))
                    if top == 1 else [], model=m, n=2, top=top)
        for top in (0, 2):
            for r0 in range(len(ROLES)):
                add('h_errors', 'errors', 400, model='amr', n=3, top=top,
                    t0_s=0, t0_r=r0, t0_t=1)
        add('h_decoded', 'decoded graphs', 400, ['role-error'], n=2)
        for tr in (False, True):
            add('h_tool', 'tool', 300, ['compliant', 'non-compliant'],
                nfiles=1, use_stdin=True, sep=0, triples=tr)
            add('h_tool', 'tool', 400, ['compliant', 'non-compliant'],
                nfiles=2, use_stdin=False, sep=0, triples=tr)
        for sep in (1, 2):
            add('h_tool', 'tool', 400, ['compliant', 'non-compliant'],
                nfiles=2, use_stdin=False, sep=sep, triples=False)
        add('h_tool', 'tool', 400, nfiles=3, use_stdin=False, sep=0, f0_n=1,
            f1_n=1, triples=False)
    else:
        for m in ('default', 'amr', 'custom'):
            add('h_errors', 'errors', 300, model=m, n=0)
            add('h_errors', 'errors', 600, model=m, n=1)
            for top in range(len(TOPS)):
                add('h_errors', 'errors', 1200, model=m, n=2, top=top)
                for s0 in range(2):
                    for r0 in range(5):
                        add('h_errors', 'errors', 1800, model=m, n=3,
                            top=top, t0_s=s0, t0_r=r0)
        add('h_decoded', 'decoded graphs', 900, ['role-error'], n=2)
        for op in (0, 1):
            add('h_decoded', 'decoded graphs', 1800, n=3, i0_op=op)
        for sep in range(3):
            for tr in (False, True):
                add('h_tool', 'tool', 1800, nfiles=3, use_stdin=False,
                    sep=sep, triples=tr)
                add('h_tool', 'tool', 600, nfiles=1, use_stdin=True,
                    sep=sep, triples=tr)
    return obs


LEVEL_TEXT = ('Bounded model checking: Model.errors is executed on every '
              'triple list / top / model within the bound and compared with '
              'an independent role check and union-find reachability; main() '
              'is executed in-process for every pattern of compliant and '
              'non-compliant graphs over the inputs and its exit status and '
              'recorded metadata are checked.')
LEVEL_NOTE = ('Process environment stubbed by contract (argv, stdin/stdout, '
              'open). Labels are catalogue indices. Trusted: CrossHair/z3; '
              'every path re-validated natively.')
TECHNIQUE = ('CrossHair/z3 bounded symbolic execution of Model.errors and of '
             'main() (in-process, stubbed I/O) over solver-chosen graphs and '
             'input patterns')
