"""
C19  Triple-conjunction notation round-trips.

E2: solver-chosen triple lists (symbol / number / quoted-string targets with
spaces, commas, parentheses, carets) written by format_triples in both line
styles and by a reference writer in every documented spacing variant, read
back by parse_triples; a quoted target with symbolic content through the
real TRIPLE_RE lexer.  E1: token-boundary lemmas on the live patterns.
"""

from __future__ import annotations

import re
from typing import List

from vflib import progs, rx
from vflib.engine import (Violation, assume, bound_int, chars_not_in, mark,
                          require)

ID = 'C19'
FUNCTIONS = ['penman._format.format_triples', 'penman._parse.parse_triples',
             'penman._parse._parse_triples', 'penman._parse._parse_triple',
             'penman._lexer.TRIPLE_RE', 'penman._lexer.lex']
BOUNDS = {
    'quick': 'lists of <= 2 triples over 4 sources x 4 roles x 9 targets, '
             'both line styles; every comma/caret spacing variant on 2 '
             'triples; quoted target with <= 2 symbolic characters',
    'thorough': '<= 3 triples; quoted target <= 3 symbolic characters',
}
ASSUMPTIONS = [
    'symbol sources/targets contain no comma or caret (the notation cannot '
    'delimit them) and roles are non-empty: the anonymous role ":" has no '
    'triple-conjunction form and is outside the claim',
]
OUTSIDE = ['triple lists beyond the bound', 'the anonymous role ":"']

SRC = ['a', 'b1', 'c-d', '-']
ROLES = [':instance', ':ARG0', 'op1', ':mod-of']
TGT = ['a', '1.5', '-', 'F#', '"C# x  y\tz"', '"a, b"', '"(p) ^ q"', '"\\""', '""']
COMMA = [',', ', ', ' ,', ' , ']
CARET = [' ^', ' ^ ', '^', ' ^\n', '\n^ ']


def _triples(sym, n):
    out = []
    for i in range(n):
        s, r, t = sym[f't{i}_s'], sym[f't{i}_r'], sym[f't{i}_t']
        bound_int(s, 0, len(SRC))
        bound_int(r, 0, len(ROLES))
        bound_int(t, 0, len(TGT))
        out.append((progs.pick(s, SRC), progs.pick(r, ROLES),
                    progs.pick(t, TGT)))
    return out


def _want(triples):
    return [(s, r if r.startswith(':') else ':' + r, t)
            for s, r, t in triples]


def h_roundtrip(n: int, indent: bool, **sym):
    import penman
    triples = _triples(sym, n)
    from vflib.engine import case
    case(triples)
    try:
        text = penman.format_triples(triples, indent=indent)
        back = penman.parse_triples(text)
    except Exception as exc:
        raise Violation(f'{type(exc).__name__}: {exc}', triples)
    if any(t.startswith('"') for _, _, t in triples):
        mark('string-target')
    require(back == _want(triples), 'parse_triples(format_triples(x)) != x',
            triples, text, back)


h_roundtrip.params_for = lambda fixed: {
    k: v for k, v in {f't{i}_{x}': int for i in range(fixed['n'])
                      for x in 'srt'}.items() if k not in fixed}


def h_spacing(**sym):
    """Two triples written with every documented spacing variant around the
    comma and the conjunction sign parse to the same triples."""
    import penman
    triples = _triples(sym, 2)
    ci, cj, ki = sym['comma0'], sym['comma1'], sym['caret']
    bound_int(ci, 0, len(COMMA))
    bound_int(cj, 0, len(COMMA))
    bound_int(ki, 0, len(CARET))
    c0, c1, k = (progs.pick(ci, COMMA), progs.pick(cj, COMMA),
                 progs.pick(ki, CARET))
    (s0, r0, t0), (s1, r1, t1) = triples
    text = (r0.lstrip(':') + '(' + s0 + c0 + t0 + ')' + k
            + r1.lstrip(':') + '(' + s1 + c1 + t1 + ')')
    try:
        back = penman.parse_triples(text)
    except Exception as exc:
        raise Violation(f'{type(exc).__name__}: {exc}', text)
    require(back == _want(triples), 'spacing variant parses differently',
            text, back, _want(triples))
    mark('ran')


h_spacing.params_for = lambda fixed: {
    k: v for k, v in {**{f't{i}_{x}': int for i in range(2) for x in 'srt'},
                      'comma0': int, 'comma1': int, 'caret': int}.items()
    if k not in fixed}


def h_symbolic_string(body: str, maxlen: int, indent: bool):
    """A quoted target with symbolic content.  The text is assembled by plain
    concatenation in the shape format_triples writes (parsing the f-string
    result directly costs > 15 s per path under CrossHair); that the shape is
    format_triples' own is asserted on the same symbolic value."""
    import penman
    assume(len(body) <= maxlen)
    chars_not_in(body, '"\\\n\r')
    tgt = '"' + body + '"'
    triples = [('a', ':instance', tgt), ('a', ':ARG0', 'b')]
    text = 'instance(a, ' + tgt + (') ^\n' if indent else ') ^ ') + 'ARG0(a, b)'
    try:
        back = penman.parse_triples(text)
    except Exception as exc:
        raise Violation(f'{type(exc).__name__}: {exc}', body)
    require(back == triples, 'quoted target did not round-trip', body, text,
            back)
    require(penman.format_triples(triples, indent=indent) == text,
            'format_triples shape', body)


def e1_boundaries():
    L = rx.Lemmas()
    from penman import _lexer
    try:
        string = rx.from_python(_lexer.PATTERNS['STRING'], re.VERBOSE)
        symbol = rx.from_python(_lexer.PATTERNS['SYMBOL'], re.VERBOSE)
    except rx.Untranslatable as exc:
        L.errors.append({'message': f'untranslatable: {exc}'})
        return L.result()
    delim = rx.any_of(['(', ')', '"', ' ', '\n', '\t'])
    L.empty('SYMBOL never contains a parenthesis, quote or blank (so role, '
            'source and target end where the writer ended them)',
            rx.intersect(symbol, rx.concat(rx.full(), delim, rx.full())),
            replay_fn='replay_e1')
    L.empty('a quoted string is one STRING token whatever it contains: '
            'STRING is prefix-free',
            rx.intersect(string, rx.concat(string, rx.plus(rx.allchar()))),
            replay_fn='replay_e1')
    body = rx.star(rx.none_of(['"', '\\', '\n']))
    L.empty('every "<body>" without quote/backslash/LF is a STRING',
            rx.difference(rx.concat(rx.lit('"'), body, rx.lit('"')), string),
            replay_fn='replay_e1')
    order = [n for _, n in sorted((i, n) for n, i in
                                  _lexer.TRIPLE_RE.groupindex.items())]
    res = L.result()
    ok = order == ['COMMENT', 'STRING', 'LPAREN', 'RPAREN', 'SYMBOL',
                   'UNEXPECTED']
    res['queries'].append({'name': 'TRIPLE_RE alternation order',
                           'result': 'ok' if ok else 'mismatch',
                           'got': order})
    if not ok:
        res['failures'].append({'kwargs': {'s': '', 'lemma': 'order'},
                                'message': f'TRIPLE_RE order {order}',
                                'replay_fn': 'replay_e1'})
    return res


def replay_e1(s: str, lemma: str):
    from penman import _lexer
    string = re.compile(_lexer.PATTERNS['STRING'], re.VERBOSE)
    symbol = re.compile(_lexer.PATTERNS['SYMBOL'], re.VERBOSE)
    if lemma.startswith('SYMBOL never'):
        require(not (symbol.fullmatch(s) and any(c in s for c in '()" \n\t')),
                lemma, s)
    elif lemma.startswith('a quoted string'):
        for k in range(1, len(s)):
            require(not (string.fullmatch(s) and string.fullmatch(s[:k])),
                    lemma, s)
    elif lemma.startswith('every'):
        require(string.fullmatch(s) is not None, lemma, s)
    else:
        toks = [t.type for t in _lexer.lex(['r(a, "b")'], _lexer.TRIPLE_RE)]
        require(toks == ['SYMBOL', 'LPAREN', 'SYMBOL', 'STRING', 'RPAREN'],
                lemma, toks)


def obligations(tier: str) -> List[dict]:
    obs = [{'name': 'E1 token boundaries under TRIPLE_RE', 'kind': 'e1',
            'fn': 'e1_boundaries', 'timeout': 120,
            'bound': 'unbounded length'}]

    def add(fn, name, timeout, marks=None, **fx):
        obs.append({'name': f'E2 {name} {fx}', 'kind': 'e2', 'fn': fn,
                    'fixed': fx, 'timeout': timeout, 'bound': str(fx),
                    'need_marks': marks or []})

    if tier == 'quick':
        for ind in (True, False):
            add('h_roundtrip', 'roundtrip', 200, ['string-target'], n=1,
                indent=ind)
            for s0 in range(len(SRC)):
                add('h_roundtrip', 'roundtrip', 400, n=2, indent=ind,
                    t0_s=s0, t0_r=s0)
        for k in range(len(CARET)):
            add('h_spacing', 'spacing variants', 400, ['ran'], caret=k,
                t0_s=0, t0_r=1, t1_s=2, t1_r=2)
        add('h_symbolic_string', 'symbolic quoted target', 400, maxlen=2,
            indent=True)
    else:
        for ind in (True, False):
            add('h_roundtrip', 'roundtrip', 600, ['string-target'], n=1,
                indent=ind)
            for s0 in range(len(SRC)):
                for r0 in range(len(ROLES)):
                    add('h_roundtrip', 'roundtrip', 1800, n=2, indent=ind,
                        t0_s=s0, t0_r=r0)
            for t0 in range(len(TGT)):
                add('h_roundtrip', 'roundtrip', 1800, n=3, indent=ind,
                    t0_t=t0, t0_r=0, t1_r=1, t2_r=2, t0_s=0, t1_s=1, t2_s=2)
        for k in range(len(CARET)):
            for s0 in range(len(SRC)):
                add('h_spacing', 'spacing variants', 1800, ['ran'], caret=k,
                    t0_s=s0, t1_s=1, t0_r=1, t1_r=2)
        for ind in (True, False):
            add('h_symbolic_string', 'symbolic quoted target', 1800,
                maxlen=3, indent=ind)
    return obs


LEVEL_TEXT = ('Bounded model checking: every triple list within the bound is '
              'written by the real format_triples (both line styles) and by a '
              'reference writer in every documented spacing variant and read '
              'back by the real parse_triples; a quoted target with symbolic '
              'content goes through the real lexer; E1 decides the token '
              'boundary facts at unbounded length.')
LEVEL_NOTE = ('Catalogue labels except the symbolic quoted target; the '
              'anonymous role is outside the claim. Trusted: CrossHair/z3; '
              'every path re-validated natively.')
TECHNIQUE = ('CrossHair/z3 bounded symbolic execution of format_triples/'
             'parse_triples over solver-chosen triple lists and spacing '
             'variants + z3 regex algebra on TRIPLE_RE patterns')
