"""
C10  Relabelling variables is a graph isomorphism.

E2 over tree programs whose concepts span the prefix function's cases
(upper case, non-ASCII letter, digits only, quoted, missing, equal to a
variable name, equal to a generated name), references with and without
alignment, five formats.
"""

from __future__ import annotations

from typing import List

from vflib import models, progs
from vflib.engine import Violation, assume, bound_int, mark, require
from vflib.oracles import split_atom_alignment
from vflib.progs import NO_CONCEPT

ID = 'C10'
FUNCTIONS = ['penman.tree.Tree.reset_variables', 'penman.tree._map_vars',
             'penman.tree._default_variable_prefix', 'penman.tree.Tree.nodes',
             'penman.layout.interpret']
BOUNDS = {
    'quick': 'trees of <= 2 branches (3 with a reduced catalogue) x 5 '
             'formats; 8 concepts, 6 atoms',
    'thorough': 'trees of <= 3 branches full catalogue, 4 reduced',
}
ASSUMPTIONS = [
    'the format contains {i} or {j} (otherwise reset_variables cannot '
    'terminate when two nodes share a prefix: recorded as an observation, '
    'not claimed)',
    'labels are catalogue entries chosen by the solver',
]
OUTSIDE = ['trees beyond the bound; the prefix of arbitrary Unicode concepts '
           '(str.isalpha/lower are the interpreter\'s)']

CONCEPTS = ['alpha', 'Beta', 'éa', '12', '"string"', NO_CONCEPT, 'b', 'a2']
# node variables are a, _, _2, 0v (names as a previous relabelling or a
# concept-less node leaves them); references to each of them
VARNAMES = ['a', '_', '_2', '0v']
ATOMS = ['a', '_~e.5', '_2', 'x', 'a2', '"a"', '0v']
ROLES = [':r', ':r-of~1']
FORMATS = ['{prefix}{j}', '{prefix}{i}', 'x{i}', '{j}{prefix}',
           '{prefix}{i}{j}']
CONCEPTS_S = ['alpha', NO_CONCEPT, 'b']
ATOMS_S = ['a', '_~e.5', 'x']


def ref_prefix(concept):
    if isinstance(concept, str):
        for c in concept:
            if c.isalpha():
                return c.lower()
    return '_'


def ref_varmap(node, fmt):
    varmap, used = {}, set()
    for var, branches in progs.tree_nodes(node):
        if var in varmap:
            continue
        concept = None
        for role, tgt in branches:
            if role == '/':
                concept = tgt
                break
        pre = ref_prefix(concept)
        i = 0
        while True:
            new = fmt.format(prefix=pre, i=i, j='' if i == 0 else i + 1)
            if new not in used:
                break
            i += 1
        used.add(new)
        varmap[var] = new
    return varmap


def ref_relabel(node, varmap):
    var, branches = node
    out = []
    for role, tgt in branches:
        if isinstance(tgt, tuple):
            tgt = ref_relabel(tgt, varmap)
        elif role != '/' and isinstance(tgt, str):
            base, aln = split_atom_alignment(tgt)
            if base in varmap:
                tgt = varmap[base] + ('~' + aln if aln is not None else '')
        out.append((role, tgt))
    return (varmap[var], out)


def h_relabel(n: int, fi: int, small: bool, **sym):
    from penman import layout
    from penman.tree import Tree
    real, ref = models.get('default')
    concepts = CONCEPTS_S if small else CONCEPTS
    atoms = ATOMS_S if small else ATOMS
    node = progs.tree_program(sym, n, ROLES, atoms, concepts,
                              varnames=VARNAMES)
    fmt = FORMATS[fi]
    varmap = ref_varmap(node, fmt)
    require(len(set(varmap.values())) == len(varmap), 'oracle: bijection')
    want = ref_relabel(node, varmap)
    t = Tree(progs.copy_tree(node), metadata={'id': '3'})
    try:
        # use the tree first (interpretation, compact formatting): relabelling
        # must not depend on anything remembered from before
        import penman
        g_pre = layout.interpret(t, real)
        penman.format(t, compact=True)
        t.reset_variables(fmt)
    except Exception as exc:
        raise Violation(f'{type(exc).__name__}: {exc}', node, fmt)
    if any(isinstance(tg, str) and '~' in tg and
           split_atom_alignment(tg)[0] in varmap
           for nd in progs.tree_nodes(node) for r, tg in nd[1] if r != '/'):
        mark('aligned-reference')
    if len(varmap) >= 2 and len({ref_prefix(None)}) == 1:
        mark('two-nodes')
    require(t.node == want, 'relabelled tree differs', node, fmt, t.node,
            want)
    require(t.metadata == {'id': '3'}, 'metadata changed')
    # interpretation commutes with renaming, provided no constant is spelled
    # like a newly generated name
    consts = []
    defined = set(varmap)
    for nd in progs.tree_nodes(node):
        for r, tg in nd[1]:
            if isinstance(tg, str) and r != '/':
                base = split_atom_alignment(tg)[0]
                if base not in defined:
                    consts.append(base)
    if any(c in varmap.values() for c in consts):
        return
    try:
        g0 = g_pre
        g1 = layout.interpret(t, real)
    except Exception as exc:
        raise Violation(f'interpret: {type(exc).__name__}: {exc}', node)

    def ren(x):
        return varmap.get(x, x) if isinstance(x, str) else x

    renamed = [(ren(s), r, t_ if r == ':instance' else ren(t_))
               for s, r, t_ in g0.triples]
    mark('commutes-checked')
    require(g1.triples == renamed and g1.top == ren(g0.top),
            'interpret(relabel(t)) != rename(interpret(t))', node, fmt,
            g1.triples, renamed)


h_relabel.params_for = lambda fixed: {
    k: v for k, v in progs.tree_params(fixed['n']).items() if k not in fixed}


def obligations(tier: str) -> List[dict]:
    obs = []

    def add(n, fi, small, timeout, marks=None, **fx):
        obs.append({'name': f'E2 relabel n={n} fmt={FORMATS[fi]} '
                            f'small={small} {fx}', 'kind': 'e2',
                    'fn': 'h_relabel',
                    'fixed': {'n': n, 'fi': fi, 'small': small, **fx},
                    'timeout': timeout, 'bound': f'<= {n} branches',
                    'need_marks': marks or []})

    if tier == 'quick':
        for fi in range(len(FORMATS)):
            add(1, fi, False, 300)
            for op in (0, 1):
                for r0 in range(len(ROLES)):
                    add(2, fi, False, 400, ['aligned-reference',
                                            'commutes-checked']
                        if (op == 1 and fi == 0 and r0 == 0) else [],
                        i0_op=op, i0_r=r0)
        for ops in [(0, 0), (0, 1), (1, 0), (1, 1), (1, 2)]:
            add(3, 0, True, 400, i0_op=ops[0], i1_op=ops[1])
            add(3, 2, True, 400, i0_op=ops[0], i1_op=ops[1])
    else:
        OPS2 = [(0, 0), (0, 1), (1, 0), (1, 1), (1, 2)]
        for fi in range(len(FORMATS)):
            add(1, fi, False, 600)
            for op in (0, 1):
                for r0 in range(len(ROLES)):
                    add(2, fi, False, 1800, i0_op=op, i0_r=r0)
            for ops in OPS2:
                add(3, fi, True, 1800, i0_op=ops[0], i1_op=ops[1])
        for ops in OPS2:
            for c0 in range(len(CONCEPTS)):
                add(3, 0, False, 1800, i0_op=ops[0], i1_op=ops[1], c0=c0)
    return obs


LEVEL_TEXT = ('Bounded model checking: reset_variables is executed by the '
              'real code on every tree up to the bound under five formats '
              'and compared with an independently computed bijection applied '
              'to every definition and reference (alignments kept, nothing '
              'else touched); interpretation must commute with the renaming.')
LEVEL_NOTE = ('Bounded by branch count and catalogues; formats contain {i} or '
              '{j}. Trusted: CrossHair/z3; every path re-validated natively.')
TECHNIQUE = ('CrossHair/z3 bounded symbolic execution of Tree.reset_variables '
             'over solver-chosen trees and formats vs a reference bijection')
