"""
C20  The penman command equals the library pipeline and emits a normal form.

E2: main() in-process (argv, stdin/stdout, open stubbed by contract) for a
symbolic option vector (pairwise in quick, wider in thorough), model
selector, input stream selector, stdin vs files; compared with a reference
pipeline composed from library calls in the documented order.
"""

from __future__ import annotations

import io
from typing import List

from vflib import cli, progs
from vflib.engine import Violation, assume, bound_int, mark, require

ID = 'C20'
FUNCTIONS = ['penman.__main__.main', 'penman.__main__.process',
             'penman.__main__._process_in', 'penman.__main__._process_out',
             'penman.__main__._make_sort_key', 'penman.__main__._order_funcs',
             'penman.__main__._indent', 'penman.__main__._get_model',
             'penman.codec.PENMANCodec.iterparse/format/format_triples',
             'penman.layout.*', 'penman.transform.*']
BOUNDS = {
    'quick': 'every pair of option slots (12 slots, each with all its '
             'values; all other slots default) x 4 input streams x stdin/'
             'files',
    'thorough': 'every triple of option slots; power set of the five '
                'transformation switches x models',
}
ASSUMPTIONS = [
    'process environment stubbed by contract (argv, stdin/stdout, open, '
    'print); argparse is trusted',
    'random keys and --model FILE / --quiet / --encoding are outside',
    'with --triples only the default and "no" indent are compared (the '
    'meaning of a numeric indent for a triple conjunction is not documented)',
]
OUTSIDE = ['argparse internals, real process/stdin/encoding, --quiet, '
           '--model FILE, random ordering keys']

SLOTS = [
    ('canonicalize_roles', [False, True]),
    ('reify_edges', [False, True]),
    ('dereify_edges', [False, True]),
    ('reify_attributes', [False, True]),
    ('indicate_branches', [False, True]),
    ('rearrange', [None, 'canonical', 'alphanumeric', 'inverted-last',
                   'attributes-first', 'attributes-first,canonical',
                   'inverted-last,alphanumeric']),
    ('reconfigure', [None, 'original', 'canonical']),
    ('make_variables', [None, '{prefix}{j}', 'v{i}']),
    ('indent', [None, 'no', '-1', '0', '3']),
    ('compact', [False, True]),
    ('triples', [False, True]),
    ('model', ['default', 'amr', 'noop']),
]
STREAMS = [
    '# ::id 1 ::snt x y\n(c / chapter :domain-of 7 :mod-of-of (b / book '
    ':ARG1-of (_ / have-mod-91 :ARG2 (d / dull))))\n',
    '(w / want-01 :ARG1 (g / go-02 :ARG0 b) :ARG0 (b / boy :quant 2 '
    ':op10 x :op2 y))\n\n# ::id 2\n(a / alpha :consist-of-of (d / delta))\n',
    '(a / alpha~1 :ARG0~e.2 (b / beta :polarity -) :ARG1-of b)\n'
    '(d / dog :name "Rex, the (dog)")',
    '',
    # shapes the interpret/configure round trip rewrites, and siblings whose
    # order depends on the priority of the sort keys
    '(x / :polarity - :ARG0 (y /))\n'
    '(a / alpha :ARG0-of (b / beta) :mod (c / gamma) :op10 1 :op9 2)\n',
]
REARRANGE_KEYS = {'canonical': 'canonical_order',
                  'alphanumeric': 'alphanumeric_order',
                  'inverted-last': 'is_role_inverted'}
RECONFIGURE_KEYS = {'original': 'original_order',
                    'canonical': 'canonical_order'}


def get_model(name):
    from penman.model import Model
    if name == 'amr':
        from penman.models.amr import model
        return model
    if name == 'noop':
        from penman.models.noop import model
        return model
    return Model()


def ref_pipeline(text, o):
    """The documented pipeline, composed from library calls: parse,
    canonicalise, interpret, reify, dereify, reify attributes, indicate
    branches, reconfigure or configure, rearrange, relabel, format."""
    import penman
    from penman import layout, transform
    model = get_model(o['model'])
    indent = {None: -1, 'no': None}.get(o['indent'], None)
    if o['indent'] not in (None, 'no'):
        indent = int(o['indent'])
    outs = []
    for t in penman.iterparse(text):
        if o['canonicalize_roles']:
            t = transform.canonicalize_roles(t, model)
        g = layout.interpret(t, model)
        if o['reify_edges']:
            g = transform.reify_edges(g, model)
        if o['dereify_edges']:
            g = transform.dereify_edges(g, model)
        if o['reify_attributes']:
            g = transform.reify_attributes(g)
        if o['indicate_branches']:
            g = transform.indicate_branches(g, model)
        if o['triples']:
            outs.append(penman.format_triples(
                g.triples, indent=(o['indent'] != 'no')))
            continue
        if o['reconfigure']:
            funcs = [getattr(model, RECONFIGURE_KEYS[k])
                     for k in o['reconfigure'].split(',')]
            t = layout.reconfigure(
                g, model=model, key=lambda role: [f(role) for f in funcs])
        else:
            t = layout.configure(g, model=model)
        if o['rearrange']:
            names = o['rearrange'].split(',')
            funcs = [getattr(model, REARRANGE_KEYS[k]) for k in names
                     if k in REARRANGE_KEYS]
            layout.rearrange(t, key=lambda role: [f(role) for f in funcs],
                             attributes_first='attributes-first' in names)
        if o['make_variables']:
            t.reset_variables(o['make_variables'])
        outs.append(penman.format(t, indent=indent, compact=o['compact']))
    return outs


def stream_text(outs):
    buf = []
    for i, s in enumerate(outs):
        if i:
            buf.append('\n')
        buf.append(s + '\n')
    return ''.join(buf)


def argv_of(o):
    a = []
    for name in ('canonicalize_roles', 'reify_edges', 'dereify_edges',
                 'reify_attributes', 'indicate_branches', 'compact',
                 'triples'):
        if o[name]:
            a.append('--' + name.replace('_', '-'))
    for name in ('rearrange', 'reconfigure', 'make_variables', 'indent'):
        if o[name] is not None:
            a += ['--' + name.replace('_', '-'), o[name]]
    if o['model'] != 'default':
        a.append('--' + o['model'])
    return a


def graph_sigs(text, model):
    import penman
    return [(g.top, sorted(g.triples, key=repr), dict(g.metadata))
            for g in penman.iterdecode(text, model=model)]


def choose_options(sym, k):
    o = {name: vals[0] for name, vals in SLOTS}
    prev = -1
    for j in range(k):
        s = sym[f's{j}']
        v = sym[f'v{j}']
        bound_int(s, 0, len(SLOTS))
        assume(s > prev)
        prev = s
        name, vals = progs.pick(s, SLOTS)
        bound_int(v, 1, len(vals))      # non-default value
        o[name] = progs.pick(v, vals)
    return o


def h_tool(k: int, **sym):
    o = choose_options(sym, k)
    if o['triples']:
        assume(o['indent'] in (None, 'no'))
    si, fi = sym['stream'], sym['files']
    bound_int(si, 0, len(STREAMS))
    bound_int(fi, 0, 3)          # 0 stdin, 1 one file, 2 two files
    text = progs.pick(si, STREAMS)
    argv = argv_of(o)
    from vflib.engine import case
    case((argv, 'stdin' if fi == 0 else f'{fi} file(s)', text))
    try:
        if fi == 0:
            code, out, err = cli.run_main(argv, stdin_text=text)
            want = stream_text(ref_pipeline(text, o))
        else:
            files = {'f0.txt': text}
            if fi == 2:
                files['f1.txt'] = STREAMS[2]
                mark('two-files')
            code, out, err = cli.run_main(argv + sorted(files), files=files)
            want = ''.join(stream_text(ref_pipeline(files[n], o))
                           for n in sorted(files))
    except Violation:
        raise
    except Exception as exc:
        raise Violation(f'{type(exc).__name__}: {exc}', argv, si, fi)
    require(code == 0, 'non-zero exit without --check', argv, code, err)
    require(out == want, 'output differs from the documented pipeline', argv,
            si, fi, out, want)
    model = get_model(o['model'])
    normalising = any(o[n] for n in (
        'canonicalize_roles', 'reify_edges', 'dereify_edges',
        'reify_attributes', 'indicate_branches', 'rearrange', 'reconfigure',
        'make_variables'))
    if fi != 0:
        return
    # formatting options never change content
    if not o['triples']:
        plain = dict(o, indent=None, compact=False)
        code2, out2, _ = cli.run_main(argv_of(plain), stdin_text=text)
        require(graph_sigs(out, model) == graph_sigs(out2, model),
                'a formatting option changed the content', argv)
        # (streams 0 and 1 carry doubly inverted roles, which are outside
        # "well-formed input" except :consist-of-of under the AMR model)
        well_formed = si in (2, 3, 4) or (si == 1 and o['model'] == 'amr')
        # normal form: feeding the output back reproduces it byte for byte
        if not o['reconfigure'] and not o['indicate_branches'] and (
                well_formed or o['canonicalize_roles']):
            code3, out3, _ = cli.run_main(argv, stdin_text=out)
            mark('fed-back')
            require(out3 == out, 'output is not a fixed point of the tool '
                    'with the same options', argv, out, out3)
        if not normalising and well_formed:
            mark('identity-options')
            require(graph_sigs(out, model) == graph_sigs(text, model),
                    'without normalisation the output must decode to the '
                    'input graphs', argv, out)


def _params(fixed):
    d = {'stream': int, 'files': int}
    for j in range(fixed['k']):
        d[f's{j}'] = int
        d[f'v{j}'] = int
    return {k: v for k, v in d.items() if k not in fixed}


h_tool.params_for = _params


def obligations(tier: str) -> List[dict]:
    obs = []

    def add(k, timeout, marks=None, **fx):
        obs.append({'name': f'E2 tool k={k} {fx}', 'kind': 'e2',
                    'fn': 'h_tool', 'fixed': {'k': k, **fx},
                    'timeout': timeout,
                    'bound': f'{k} non-default option slots',
                    'need_marks': marks or []})

    if tier == 'quick':
        add(0, 200, ['identity-options', 'fed-back'])
        add(1, 400, ['two-files'])
        for s0 in range(len(SLOTS) - 1):
            add(2, 400, s0=s0)
    else:
        add(0, 600, ['identity-options', 'fed-back'])
        add(1, 1500, ['two-files'])
        for s0 in range(len(SLOTS) - 1):
            for s1 in range(s0 + 1, len(SLOTS)):
                add(2, 1800, s0=s0, s1=s1)
        for s0 in range(5):
            for s1 in range(s0 + 1, len(SLOTS) - 1):
                add(3, 1800, s0=s0, s1=s1, files=0)
    return obs


LEVEL_TEXT = ('Bounded model checking: main() is executed in-process for '
              'every combination of up to k non-default option slots, every '
              'input stream of the catalogue and every input channel, and '
              'its output is compared byte for byte with a reference pipeline '
              'composed from library calls in the documented order; content '
              'invariance under formatting options, the fixed-point clause '
              'and the identity clause are asserted.')
LEVEL_NOTE = ('Pairwise (quick) / three-wise (thorough) coverage of the '
              'option grid, not the full power set; process environment '
              'stubbed by contract. Trusted: CrossHair/z3, argparse.')
TECHNIQUE = ('CrossHair/z3 bounded symbolic execution of main() over a '
             'symbolic option vector vs a reference library pipeline')
