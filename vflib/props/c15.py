"""
C15  Graph queries partition the triples; graph set operations are set
algebra.

E2 over index-labelled triple lists (solver-chosen source/role/target
indices, duplicates and colon-less roles included), tops and filters; set
operations as one inductive step from an arbitrary pre-state (triples,
arbitrary marker map over a superset of its triples, arbitrary explicit top).
"""

from __future__ import annotations

from typing import List

from vflib import progs
from vflib.engine import Violation, assume, bound_int, mark, require

ID = 'C15'
FUNCTIONS = ['penman.graph.Graph.__init__', 'penman.graph._ensure_colon',
             'penman.graph.Graph.top (getter/setter)',
             'penman.graph.Graph.variables', 'penman.graph.Graph.instances',
             'penman.graph.Graph.edges', 'penman.graph.Graph.attributes',
             'penman.graph.Graph._filter_triples',
             'penman.graph.Graph.reentrancies', 'penman.graph.Graph.__or__',
             'penman.graph.Graph.__ior__', 'penman.graph.Graph.__sub__',
             'penman.graph.Graph.__isub__', 'penman.graph.Graph.__eq__']
BOUNDS = {
    'quick': 'queries: every list of <= 3 triples over sources {a,b}, roles '
             '{:instance, :r, r}, targets {a,b,k,None} x 4 tops x filters; '
             'set operations: pre-state of <= 2 triples + other of <= 2 '
             'triples, arbitrary marker maps, 4 operators',
    'thorough': 'queries <= 4 triples; set operations 3 + 2 triples',
}
ASSUMPTIONS = [
    'labels are indices into small alphabets (fully symbolic string triples '
    'did not exhaust: triples are hashed)',
    'operation sequences are covered by one inductive step from an arbitrary '
    'pre-state satisfying the representation invariant (list of 3-tuples '
    'with colon roles, marker map a dict of lists)',
]
OUTSIDE = ['label alphabets beyond the catalogues']

SRC = ['a', 'b']
ROLE = [':instance', ':r', 'r']
TGT = ['a', 'b', 'k', None]
TOPS = [None, 'a', 'b', 'k']


def _triples(sym, n, prefix, roles=None, tgts=None):
    roles = roles or ROLE
    tgts = tgts or TGT
    out = []
    for i in range(n):
        s, r, t = sym[f'{prefix}{i}_s'], sym[f'{prefix}{i}_r'], \
            sym[f'{prefix}{i}_t']
        bound_int(s, 0, len(SRC))
        bound_int(r, 0, len(roles))
        bound_int(t, 0, len(tgts))
        out.append((progs.pick(s, SRC), progs.pick(r, roles),
                    progs.pick(t, tgts)))
    return out


def _tparams(n, prefix):
    return {f'{prefix}{i}_{x}': int for i in range(n) for x in 'srt'}


def _colon(role):
    return role if role.startswith(':') else ':' + role


def _is_subsequence(sub, full):
    it = 0
    for x in full:
        if it < len(sub) and sub[it] == x:
            it += 1
    return it == len(sub)


def h_queries(n: int, **sym):
    from penman.exceptions import GraphError
    from penman.graph import Graph
    raw = _triples(sym, n, 't')
    ti = sym['top']
    bound_int(ti, 0, len(TOPS))
    top = progs.pick(ti, TOPS)
    fs, fr, ft = sym['fs'], sym['fr'], sym['ft']
    bound_int(fs, 0, 3)
    bound_int(fr, 0, 3)
    bound_int(ft, 0, 4)
    f_src = progs.pick(fs, [None, 'a', 'b'])
    f_role = progs.pick(fr, [None, ':r', ':instance'])
    f_tgt = progs.pick(ft, [None, 'a', 'b', 'k'])
    try:
        g = Graph(raw, top=top)
        triples = list(g.triples)
        inst, edges, attrs = g.instances(), g.edges(), g.attributes()
        variables = g.variables()
        gtop = g.top
        reent = g.reentrancies()
        fe = g.edges(source=f_src, role=f_role, target=f_tgt)
        fa = g.attributes(source=f_src, role=f_role, target=f_tgt)
    except Exception as exc:
        raise Violation(f'{type(exc).__name__}: {exc}', raw, top)
    want = [(s, _colon(r), t) for s, r, t in raw]
    require(triples == want, 'triples not normalised/kept', raw, triples)
    want_vars = set(s for s, _, _ in want) | ({top} if top is not None
                                              else set())
    require(variables == want_vars, 'variables', raw, variables)
    require(gtop == (top if top is not None else
                     (want[0][0] if want else None)), 'top', raw, gtop)
    w_inst = [t for t in want if t[1] == ':instance']
    w_edge = [t for t in want if t[1] != ':instance' and t[2] in want_vars]
    w_attr = [t for t in want if t[1] != ':instance'
              and t[2] not in want_vars]
    require([tuple(x) for x in inst] == w_inst, 'instances', raw, inst)
    require([tuple(x) for x in edges] == w_edge, 'edges', raw, edges)
    require([tuple(x) for x in attrs] == w_attr, 'attributes', raw, attrs)
    require(len(inst) + len(edges) + len(attrs) == len(want), 'partition')
    if w_edge and w_attr:
        mark('edges-and-attributes')

    def flt(lst):
        return [t for t in lst
                if (f_src is None or t[0] == f_src)
                and (f_role is None or t[1] == f_role)
                and (f_tgt is None or t[2] == f_tgt)]

    require([tuple(x) for x in fe] == flt(w_edge), 'filtered edges', raw, fe)
    require([tuple(x) for x in fa] == flt(w_attr), 'filtered attributes',
            raw, fa)
    require(_is_subsequence([tuple(x) for x in fe], want), 'filter order')
    # re-entrancies: in-degree (+1 for the top) - 1, reported when >= 1
    indeg = {}
    if gtop is not None:
        indeg[gtop] = 1
    for _, _, t in w_edge:
        indeg[t] = indeg.get(t, 0) + 1
    w_re = {v: c - 1 for v, c in indeg.items() if c >= 2}
    if w_re:
        mark('reentrancy')
    require(reent == w_re, 'reentrancies', raw, top, reent, w_re)
    # assigning a top
    for cand in ('a', 'b', 'k'):
        g3 = Graph(raw, top=top)
        try:
            g3.top = cand
            ok = True
        except GraphError:
            ok = False
        except Exception as exc:
            raise Violation(f'{type(exc).__name__} from top setter', raw)
        require(ok == (cand in want_vars), 'top setter refuses exactly '
                'non-variables', raw, top, cand, ok)
        if ok:
            require(g3.top == cand, 'top setter did not set', raw, cand)


h_queries.params_for = lambda fixed: {
    k: v for k, v in {**_tparams(fixed['n'], 't'), 'top': int, 'fs': int,
                      'fr': int, 'ft': int}.items() if k not in fixed}

MARK = ['m1']


def _epimap(sym, triples, prefix, extra, full_markers):
    """Arbitrary marker map: every triple (and one stray triple) is absent,
    maps to [] or to a one-marker list."""
    d = {}
    # markers on the first triple (and on one stray key): enough to observe
    # carrying / dropping / aliasing, and keeps the state space small
    keys = list(dict.fromkeys(triples))[:1] + ([extra] if extra else [])
    for i, tr in enumerate(keys):
        c = sym[f'{prefix}{i}']
        bound_int(c, 0, 3 if full_markers else 2)
        if c == 2:
            d[tr] = []
        elif c == 1:
            d[tr] = [f'{prefix}-marker-{i}']
    return d


def h_setops(n1: int, n2: int, op: int, full_markers: bool, **sym):
    import copy
    from penman.graph import Graph
    # set operations do not look at roles: one role, three targets
    t1 = _triples(sym, n1, 'x', [':r'], ['a', 'b', 'k'])
    t2 = _triples(sym, n2, 'y', [':r'], ['a', 'b', 'k'])
    # keep each operand duplicate-free (set algebra is about sets of triples)
    for lst in (t1, t2):
        for i in range(len(lst)):
            for j in range(i):
                assume(lst[i] != lst[j])
    i1, i2 = sym['top1'], sym['top2']
    bound_int(i1, 0, len(TOPS))
    bound_int(i2, 0, len(TOPS))
    top1, top2 = progs.pick(i1, TOPS), progs.pick(i2, TOPS)
    stray = ('b', ':stray', 'k')
    e1 = _epimap(sym, t1, 'p', stray, full_markers)
    e2 = _epimap(sym, t2, 'q', None, full_markers)
    g1 = Graph(t1, top=top1, epidata=e1, metadata={'id': '1'})
    g2 = Graph(t2, top=top2, epidata=e2, metadata={'id': '2'})
    snap1 = (list(g1.triples), copy.deepcopy(g1.epidata), g1._top,
             dict(g1.metadata))
    snap2 = (list(g2.triples), copy.deepcopy(g2.epidata), g2._top,
             dict(g2.metadata))
    try:
        if op == 0:
            res = g1 | g2
        elif op == 1:
            res = g1
            res |= g2
        elif op == 2:
            res = g1 - g2
        else:
            res = g1
            res -= g2
    except Exception as exc:
        raise Violation(f'{type(exc).__name__}: {exc}', t1, t2, op)
    # operands untouched (except the in-place target)
    now2 = (list(g2.triples), g2.epidata, g2._top, dict(g2.metadata))
    require(now2 == snap2, 'right operand modified', t1, t2, op)
    if op in (0, 2):
        now1 = (list(g1.triples), g1.epidata, g1._top, dict(g1.metadata))
        require(now1 == snap1, 'left operand modified', t1, t2, op)
        require(res is not g1, 'non-in-place operator returned its operand')
    else:
        require(res is g1, 'in-place operator returned a new object')
    if op in (0, 1):
        added = [t for t in t2 if t not in t1]
        require(res.triples == t1 + added, 'union is not order-preserving '
                'set union', t1, t2, res.triples)
        if added:
            mark('added')
        for t in added:
            if t in snap2[1]:
                require(res.epidata.get(t) == snap2[1][t],
                        "added triple's markers not carried", t,
                        res.epidata.get(t))
        for t in t1:
            if t not in t2 and t in snap1[1]:
                require(res.epidata.get(t) == snap1[1][t],
                        'markers of a kept triple changed', t)
        require(res._top == top1, 'union changed the explicit top', top1,
                res._top)
    else:
        kept = [t for t in t1 if t not in t2]
        require(res.triples == kept, 'difference is not order-preserving '
                'set difference', t1, t2, res.triples)
        if len(kept) < len(t1):
            mark('removed')
        for t in t1:
            if t in t2:
                require(t not in res.epidata, 'markers of a removed triple '
                        'kept', t)
            elif t in snap1[1]:
                require(res.epidata.get(t) == snap1[1][t],
                        'markers of a kept triple changed', t)
        occurs = set()
        for s, _, t in kept:
            occurs.add(s)
            occurs.add(t)
        want_top = top1 if (top1 is not None and top1 in occurs) else None
        if top1 is not None and want_top is None:
            mark('top-dropped')
        require(res._top == want_top, 'explicit top rule', t1, t2, top1,
                res._top)
    # representation invariant again (inductive step)
    for tr in res.triples:
        require(isinstance(tr, tuple) and len(tr) == 3
                and tr[1].startswith(':'), 'invariant: triples', tr)
    for k, v in res.epidata.items():
        require(isinstance(v, list), 'invariant: marker lists', k, v)
    # equality is set equality of triples + top
    require((res == Graph(list(reversed(res.triples)), top=res.top)),
            '__eq__ must ignore triple order')


def _setop_params(fixed):
    n1, n2 = fixed['n1'], fixed['n2']
    d = {**_tparams(n1, 'x'), **_tparams(n2, 'y'), 'top1': int, 'top2': int}
    for i in range(min(n1, 1) + 1):
        d[f'p{i}'] = int
    for i in range(min(n2, 1)):
        d[f'q{i}'] = int
    return {k: v for k, v in d.items() if k not in fixed}


h_setops.params_for = _setop_params


def obligations(tier: str) -> List[dict]:
    obs = []

    def q(n, timeout, marks=None, **fx):
        obs.append({'name': f'E2 queries n={n} {fx}', 'kind': 'e2',
                    'fn': 'h_queries', 'fixed': {'n': n, **fx},
                    'timeout': timeout, 'bound': f'{n} triples',
                    'need_marks': marks or []})

    def so(n1, n2, op, timeout, marks=None, **fx):
        obs.append({'name': f'E2 setops {n1}+{n2} op={op} {fx}', 'kind': 'e2',
                    'fn': 'h_setops',
                    'fixed': {'n1': n1, 'n2': n2, 'op': op,
                              'full_markers': tier != 'quick', **fx},
                    'timeout': timeout, 'bound': f'{n1}+{n2} triples',
                    'need_marks': marks or []})

    if tier == 'quick':
        q(0, 100)
        q(1, 300)
        for top in range(4):
            q(2, 400, ['edges-and-attributes', 'reentrancy']
              if top == 1 else [], top=top, fs=0, fr=0)
        for op in range(4):
            so(1, 1, op, 400, ['added'] if op < 2 else ['removed'], top2=0)
        for op in (0, 2):
            for top1 in range(4):
                so(2, 1, op, 400, ['top-dropped'] if (op == 2 and top1 == 1)
                   else [], top1=top1, top2=0)
    else:
        q(0, 100)
        q(1, 600)
        for top in range(4):
            for fs in range(3):
                q(2, 1800, top=top, fs=fs)
            for s0 in range(2):
                for r0 in range(3):
                    q(3, 1800, top=top, fs=0, fr=0, ft=0, t0_s=s0, t0_r=r0)
        for op in range(4):
            so(1, 1, op, 1500, ['added'] if op < 2 else ['removed'])
            for top1 in range(4):
                so(2, 1, op, 1800, top1=top1, top2=0)
                so(1, 2, op, 1800, top1=top1, top2=0)
                so(2, 2, op, 1800, top1=top1, top2=0, x0_t=0, p0=1)
    return obs


LEVEL_TEXT = ('Bounded model checking: every triple list / top / filter and '
              'every pair of graphs with arbitrary marker maps within the '
              'bound goes through the real Graph methods; partition, filter, '
              'top and re-entrancy laws and the set-algebra postconditions '
              '(including the representation invariant, which makes the '
              'single step inductive for operation sequences) are asserted.')
LEVEL_NOTE = ('Labels are indices into small alphabets. Trusted: CrossHair/'
              'z3; every path re-validated natively.')
TECHNIQUE = ('CrossHair/z3 bounded symbolic execution of the Graph API over '
             'solver-chosen triple lists; inductive step for set operators')
