"""
C12  Every transformation returns a well-formed graph that serialises
faithfully.

E2: graph source (decoded tree program / the same triples without markers /
decoded then edited), explicit top, transform program (sequence of up to k
transformations, indicate_branches at most once), model {amr, custom,
default}.
"""

from __future__ import annotations

from typing import List

from vflib import graphcheck, models, progs
from vflib.engine import Violation, assume, bound_int, mark, require
from vflib.progs import NO_CONCEPT
from vflib.props.c02 import well_formed

ID = 'C12'
FUNCTIONS = ['penman.transform.reify_edges', 'penman.transform.dereify_edges',
             'penman.transform.reify_attributes',
             'penman.transform.indicate_branches',
             'penman.transform._edge_markers',
             'penman.transform._attr_markers',
             'penman.transform._reified_markers',
             'penman.transform._dereify_agenda', 'penman.model.Model.reify',
             'penman.model.Model.dereify', 'penman.layout.appears_inverted',
             'penman.layout.get_pushed_variable', 'penman.layout.configure',
             'penman.layout.interpret']
BOUNDS = {
    'quick': 'trees of <= 2 branches (<= 3 nodes) x 3 graph sources x every '
             'top x 1 transformation; trees of 1 branch x every sequence of '
             '<= 2 transformations; models amr, custom (default: 1 step)',
    'thorough': '<= 3 branches x <= 3 transformations',
}
ASSUMPTIONS = ['labels are catalogue entries chosen by the solver',
               'well-formedness evaluated by the reference interpretation']
OUTSIDE = ['graphs/programs beyond the bound']

ROLES = {'amr': [':mod', ':ARG0-of', ':mod-of'],
         'custom': [':r', ':q1-of', ':s-of'],
         'default': [':r', ':r-of', ':mod']}
ATOMS = ['a', 'b', '7']
CONCEPTS = ['y', NO_CONCEPT]
TRANSFORMS = ['reify_edges', 'dereify_edges', 'reify_attributes',
              'indicate_branches']


def apply_transform(name, g, real):
    from penman import transform
    if name == 'reify_edges':
        return transform.reify_edges(g, real)
    if name == 'dereify_edges':
        return transform.dereify_edges(g, real)
    if name == 'reify_attributes':
        return transform.reify_attributes(g)
    return transform.indicate_branches(g, real)


# a second catalogue whose trees contain (partial) reified nodes: concept
# have-mod-91 with :ARG1/:ARG2 relations to variables, constants and nodes
ROLES_R = [':ARG1', ':ARG2-of', ':ARG2', ':ARG1-of']
ATOMS_R = ['a', '7', 'b']
CONCEPTS_R = ['have-mod-91', 'y']


def h_transforms(model: str, n: int, k: int, source: int, **sym):
    from penman import layout
    from penman.graph import Graph
    from penman.tree import Tree
    real, ref = models.get(model)
    if sym.get('reified_cat'):
        node = progs.tree_program(sym, n, ROLES_R, ATOMS_R, CONCEPTS_R)
    else:
        node = progs.tree_program(sym, n, ROLES[model], ATOMS, CONCEPTS)
    assume(well_formed(node, ref))
    g = layout.interpret(Tree(progs.copy_tree(node)), real)
    variables = sorted(g.variables())
    if source == 1:      # hand-built: same triples, no markers
        g = Graph(list(g.triples))
    elif source == 2:    # edited: an attribute appended after decoding
        g.triples.append((variables[-1], ':added', 'z'))
    ti = sym['top']
    bound_int(ti, 0, len(variables))
    top = progs.pick(ti, variables)
    g.top = top
    if top != g.triples[0][0]:
        mark('top-not-first')
    names = []
    seen_ib = False
    for j in range(k):
        x = sym[f'x{j}']
        bound_int(x, 0, len(TRANSFORMS) + 1)   # last value: stop
        if x == len(TRANSFORMS):
            for jj in range(j + 1, k):
                assume(sym[f'x{jj}'] == len(TRANSFORMS))
            break
        name = progs.pick(x, TRANSFORMS)
        if name == 'indicate_branches':
            assume(not seen_ib)
            seen_ib = True
        names.append(name)
    before = list(g.triples)
    cur = g
    for name in names:
        prev_triples = list(cur.triples)
        prev_attrs = [tuple(t) for t in cur.attributes()]
        # markers that really open a nested node: the pushed variable is the
        # triple's target, or its source with a variable as the other end (a
        # stale marker left on an attribute opens nothing)
        cur_vars = cur.variables()
        prev_pushes = 0
        for t in cur.triples:
            for e in cur.epidata.get(t, []):
                if type(e).__name__ == 'Push':
                    if e.variable == t[2] or (e.variable == t[0]
                                              and t[2] in cur_vars):
                        prev_pushes += 1
                    break
        try:
            nxt = apply_transform(name, cur, real)
        except Exception as exc:
            raise Violation(f'{name} raised {type(exc).__name__}: {exc}',
                            node, source, top, names)
        require(list(cur.triples) == prev_triples,
                f'{name} modified its argument', node)
        require(nxt.top == top, f'{name} changed the top', node, names,
                nxt.top, top)
        if name == 'reify_attributes':
            require(nxt.attributes() == [], 'attributes left', node,
                    nxt.attributes())
            # contracting the new nodes gives back the original triples
            newvars = nxt.variables() - cur.variables()
            inst = {t[0]: t[2] for t in nxt.triples
                    if t[1] == ':instance' and t[0] in newvars}
            contracted = [(s, r, inst[t]) if (r != ':instance'
                                              and t in inst) else (s, r, t)
                          for s, r, t in nxt.triples if s not in newvars]
            require(contracted == prev_triples, 'contracting reified '
                    'attributes does not give back the triples', node,
                    nxt.triples, prev_triples)
            if prev_attrs:
                mark('attributes-reified')
        if name == 'indicate_branches':
            tops = [t for t in nxt.triples if t[1] == real.top_role]
            rest = [t for t in nxt.triples if t[1] != real.top_role]
            require(rest == prev_triples, 'removing the top-role triples '
                    'does not give back the graph', node, nxt.triples)
            require(len(tops) == prev_pushes, 'one top-role triple per '
                    'nested node', node, tops, prev_pushes)
            if tops:
                mark('branches-indicated')
        if name == 'reify_edges' and nxt.triples != prev_triples:
            mark('edges-reified')
            for t in nxt.triples:
                require(not real.is_role_reifiable(t[1]),
                        'reifiable role left', node, t)
        if name == 'dereify_edges' and nxt.triples != prev_triples:
            mark('edges-dereified')
        cur = nxt
    # well-formed, connected, serialises faithfully
    tr = list(cur.triples)
    vs = cur.variables()
    inst_vars = set(t[0] for t in tr if t[1] == ':instance')
    for s, r, t in tr:
        require(s in inst_vars, 'a source has no node', node, names, tr)
    require(graphcheck.is_connected(tr, top), 'result is not connected',
            node, names, tr)
    graphcheck.encode_decode(cur, None, real, ref, tr, (node, names, top))


def _params(fixed):
    d = dict(progs.tree_params(fixed['n']))
    d['top'] = int
    fixed = dict(fixed)
    for j in range(fixed['k']):
        d[f'x{j}'] = int
    return {k: v for k, v in d.items() if k not in fixed}


h_transforms.params_for = _params


def obligations(tier: str) -> List[dict]:
    obs = []

    def add(model, n, k, source, timeout, marks=None, **fx):
        obs.append({'name': f'E2 transforms model={model} n={n} k={k} '
                            f'source={source} {fx}', 'kind': 'e2',
                    'fn': 'h_transforms',
                    'fixed': {'model': model, 'n': n, 'k': k,
                              'source': source, **fx},
                    'timeout': timeout,
                    'bound': f'<= {n} branches, <= {k} transformations',
                    'need_marks': marks or []})

    if tier == 'quick':
        for src in (0, 1, 2):
            for x0 in range(4):
                add('amr', 2, 1, src, 400,
                    ['edges-reified', 'top-not-first'] if (x0, src) == (0, 0)
                    else ['attributes-reified'] if (x0, src) == (2, 0)
                    else ['branches-indicated'] if (x0, src) == (3, 0)
                    else [], x0=x0)
        for m in ('amr', 'custom'):
            for src in (0, 1, 2):
                add(m, 1, 2, src, 400)
        for x0 in range(4):
            add('default', 2, 1, 0, 400, x0=x0)
        # trees that already contain reified nodes (constants / nodes /
        # variables in either argument position), dereified
        for op in (0, 1):
            add('amr', 2, 1, 0, 400, ['edges-dereified'] if op else [], x0=1,
                reified_cat=1, i0_op=op)
        for ops in [(0, 1), (1, 0), (1, 1), (1, 2)]:
            for r0 in range(len(ROLES_R)):
                add('amr', 3, 1, 0, 400, x0=1, reified_cat=1, i0_op=ops[0],
                    i1_op=ops[1], i0_r=r0)
        # dereify then reify / indicate branches on re-topped graphs (where
        # N5 and N6 were found)
        for ops in [(0, 1), (1, 0)]:
            for x1 in (0, 3):
                for r0 in (0, 2):
                    add('amr', 3, 2, 0, 400, x0=1, x1=x1, reified_cat=1,
                        i0_op=ops[0], i1_op=ops[1], i0_r=r0)
        add('custom', 2, 1, 0, 400, x0=0)
        add('custom', 2, 1, 0, 400, x0=1)
    else:
        OPS2 = [(0, 0), (0, 1), (1, 0), (1, 1), (1, 2)]
        for m in ('amr', 'custom', 'default'):
            for src in (0, 1, 2):
                for x0 in range(4):
                    add(m, 2, 1, src, 900, x0=x0)
                    if m != 'default':
                        add(m, 2, 2, src, 1800, x0=x0)
        for src in (0, 1, 2):
            for x0 in range(4):
                add('amr', 1, 3, src, 1800, x0=x0)
        for x0 in range(4):
            for ops in OPS2:
                add('amr', 3, 1, 0, 1800, x0=x0, i0_op=ops[0], i1_op=ops[1])
        for x0 in (0, 1, 2):
            for ops in OPS2:
                add('amr', 3, 2, 0, 1800, x0=x0, reified_cat=1,
                    i0_op=ops[0], i1_op=ops[1])
    return obs


LEVEL_TEXT = ('Bounded model checking: every sequence of transformations up '
              'to the bound is applied by the real code to every graph source '
              '(decoded, marker-free, edited) with every explicit top; no '
              'exception, same top, well-formedness, connectivity, faithful '
              'encode/decode and the contraction laws are asserted.')
LEVEL_NOTE = ('Bounded by branch count, program length and catalogues. '
              'Trusted: CrossHair/z3; every path re-validated natively.')
TECHNIQUE = ('CrossHair/z3 bounded symbolic execution of the four graph '
             'transformations over solver-chosen graphs, tops and transform '
             'programs')
