"""
C09  The same text means the same graphs in every container and stream
framing.

(a) E2: a text assembled from solver-chosen fragments and separators (LF,
    CRLF, CR, blank lines, and the separators str.splitlines() also knows:
    VT, FF, FS, NEL, LS, PS) plus one fully symbolic character: tokens and
    decoded graphs agree between str input, lines without terminators, lines
    with terminators and a StringIO "file".
(b) E2: lists of 0..3 graphs with metadata survive dumps/loads and dump/load
    under every indent option and separator.
E1: a trailing line terminator never changes the tokens of a line.
"""

from __future__ import annotations

import io
import re
from typing import List

from vflib import progs, rx
from vflib.engine import (Violation, assume, bound_int, chars_not_in, mark,
                          require)
from vflib.oracles import ref_split_lines

ID = 'C09'
FUNCTIONS = ['penman._lexer.lex', 'penman._lexer._lex',
             'penman._parse.iterparse', 'penman.codec._loads',
             'penman.codec._load', 'penman.codec._dumps',
             'penman.codec._dump', 'penman.codec._dump_stream',
             'penman.codec.PENMANCodec.iterdecode']
BOUNDS = {
    'quick': '(a) 3 fragments x 2 separators out of 12 + one symbolic '
             'character (all of Unicode) in a comment / symbol / string; '
             '(b) lists of <= 2 graphs out of 5 x 4 indents x 3 separators',
    'thorough': '(a) 4 fragments, two symbolic characters; (b) <= 3 graphs',
}
ASSUMPTIONS = [
    'the file object is environment: io.StringIO(text) stands for a text '
    'file opened with universal newlines (its iteration contract: lines end '
    'at LF, CRLF, CR only)',
    'CrossHair models $ as end-of-string only, so lines WITH terminators are '
    'compared natively-realised in (a) and decided symbolically by the E1 '
    'lemma',
]
OUTSIDE = ['a real file on disk, encodings']

FRAGS = ['(a / b)', '# ::id 1 ::snt x y', '(c / d :e "f g")', '', '  ',
         '(h / i', ':j k)', '# plain comment']
SEPS = ['\n', '\r\n', '\r', '\n\n', '\n\r\n', '\x0b', '\x0c', '\x1c', '\x85',
        ' ', ' ', ' ']


def _graphs_sig(gs):
    return [(g.top, list(g.triples), dict(g.metadata),
             sorted((repr(k), repr(v)) for k, v in g.epidata.items()))
            for g in gs]


def _tok_sig(toks):
    return [(t.type, t.text, t.lineno, t.offset) for t in toks]


def _compare(text, graphs=True):
    import penman
    from penman._lexer import lex
    from penman.exceptions import DecodeError
    lines = ref_split_lines(text)
    try:
        t_str = _tok_sig(lex(text))
        t_lines = _tok_sig(lex(list(lines)))
    except Exception as exc:
        raise Violation(f'lex raised {type(exc).__name__}: {exc}', text)
    require(t_str == t_lines, 'tokens differ between str and list of lines',
            text, t_str, t_lines)
    if not graphs:
        return lines, t_str, None

    def run(f):
        try:
            return ('ok', _graphs_sig(f()))
        except DecodeError as exc:
            return ('error', exc.lineno, exc.offset)
        except Exception as exc:
            raise Violation(f'{type(exc).__name__}: {exc}', text)

    a = run(lambda: penman.loads(text))
    b = run(lambda: list(penman.iterdecode(list(lines))))
    require(a == b, 'graphs differ between str and list of lines', text, a,
            b)
    if a[0] == 'ok' and len(a[1]) >= 2:
        mark('two-graphs')
    return lines, t_str, a


def _compare_native_containers(text, lines, t_str, a):
    """Lines with terminators / StringIO (run on concrete text only)."""
    import penman
    from penman._lexer import lex
    from penman.exceptions import DecodeError
    keep = io.StringIO(text, newline=None).readlines()
    t_keep = _tok_sig(lex(keep))
    # offsets/linenos/text must agree; a comment must not keep its terminator
    require(t_keep == t_str, 'tokens differ for lines with terminators',
            text, t_keep, t_str)

    def run(f):
        try:
            return ('ok', _graphs_sig(f()))
        except DecodeError as exc:
            return ('error', exc.lineno, exc.offset)

    c = run(lambda: penman.load(io.StringIO(text, newline=None)))
    require(c == a, 'graphs differ between str and file', text, a, c)


def h_fragments(k: int, nf: int, ns: int, **sym):
    pieces = []
    for i in range(k):
        fi = sym[f'f{i}']
        bound_int(fi, 0, nf)
        pieces.append(progs.pick(fi, FRAGS[:nf]))
        if i < k - 1:
            si = sym[f's{i}']
            bound_int(si, 0, ns)
            pieces.append(progs.pick(si, SEPS[:ns]))
    text = ''.join(pieces)
    from vflib.engine import case
    case(text)
    lines, t_str, a = _compare(text)
    _compare_native_containers(text, lines, t_str, a)


h_fragments.params_for = lambda fixed: {
    k: v for k, v in {**{f'f{i}': int for i in range(fixed['k'])},
                      **{f's{i}': int for i in range(fixed['k'] - 1)}}.items()
    if k not in fixed}

TEMPLATES = ['# ::snt foo{}bar\n(a / b)', '(a / b{}c :d e)',
             '(a / b :c "d{}e")', '(a / b){}(c / d)']


def h_symbolic_char(ti: int, graphs: bool, c: str):
    """One fully symbolic character (or nothing) inside a comment, a symbol,
    a string, or between two graphs."""
    assume(len(c) <= 1)
    text = TEMPLATES[ti].replace('{}', '\x00').split('\x00')
    text = text[0] + c + text[1]
    if len(c) == 1 and c in '\x0b\x0c\x1c\x1d\x1e\x85  ':
        mark('exotic-separator')
    if len(c) == 1 and (c == '\n' or c == '\r'):
        mark('line-terminator')
    # decoding on top of lexing multiplies the cost of a symbolic text by
    # four; the graphs are compared for the comment / between-graphs
    # templates, tokens (type, text, lineno, offset) for all
    _compare(text, graphs=graphs)


def h_symbolic_char_replay(ti: int, c: str):
    """Native companion of h_symbolic_char for the containers CrossHair
    cannot model (lines with terminators, StringIO)."""
    text = TEMPLATES[ti].replace('{}', c)
    lines, t_str, a = _compare(text)
    _compare_native_containers(text, lines, t_str, a)


GRAPH_TEXTS = ['(a / b)', '# ::id 1\n# ::snt x ; (y) " # z\n(c / d :e "f g")',
               '# ::snt \u3000lead\u2028in  two\n# ::t  \tx\n(s / t)',
               '# ::e\n(h / i :j (k / l))', '# ::n a b\n(m :o-of (p))',
               '(q / r :s 0)']
SET_METAS = [{}, {'snt': '\u3000lead\u2028in'}, {'id': '  two  spaces', 'e': ''},
             {'k': '; ( ) " #'}]
DUMP_INDENTS = [-1, None, 0, 3]
JOINERS = ['\n\n', '\n', ' ']


def _plain_print(*args, file=None, sep=' ', end='\n'):
    import sys
    (file if file is not None else sys.stdout).write(
        sep.join(str(a) for a in args) + end)


def h_dump_load(n: int, **sym):
    import penman
    import penman.codec
    # CrossHair's print() patch deep-copies its file argument (the text
    # written by dump() would be lost); same contract, no copy
    penman.codec.print = _plain_print
    gs = []
    for i in range(n):
        gi = sym[f'g{i}']
        bound_int(gi, 0, len(GRAPH_TEXTS))
        g = penman.decode(progs.pick(gi, GRAPH_TEXTS))
        if i == 0:
            # metadata set programmatically (not obtained by parsing): values
            # that start with blanks or non-ASCII separators, empty values
            mi = sym['meta0']
            bound_int(mi, 0, len(SET_METAS))
            g.metadata.update(progs.pick(mi, SET_METAS))
        gs.append(g)
    ii, ji, ci = sym['indent'], sym['joiner'], sym['compact']
    bound_int(ii, 0, len(DUMP_INDENTS))
    bound_int(ji, 0, len(JOINERS))
    bound_int(ci, 0, 2)
    indent = progs.pick(ii, DUMP_INDENTS)
    joiner = progs.pick(ji, JOINERS)
    compact = ci == 1
    want = _graphs_sig(gs)
    try:
        s = penman.dumps(gs, indent=indent, compact=compact)
        back = penman.loads(s)
        buf = io.StringIO()
        penman.dump(gs, buf, indent=indent, compact=compact)
        from_file = penman.load(io.StringIO(buf.getvalue(), newline=None))
        rejoined = joiner.join(penman.encode(g, indent=indent,
                                             compact=compact) for g in gs)
        back2 = penman.loads(rejoined)
    except Exception as exc:
        raise Violation(f'{type(exc).__name__}: {exc}', n, indent)
    if any(g.metadata for g in gs) and n >= 2:
        mark('metadata-multi')
    require(_graphs_sig(back) == want, 'loads(dumps(gs)) != gs', s, back)
    require(_graphs_sig(from_file) == want, 'load(dump(gs)) != gs',
            buf.getvalue())
    require(_graphs_sig(back2) == want, 'graphs differ under another '
            'separator', rejoined)
    require(buf.getvalue() == (s + '\n' if gs else ''),
            'dump writes the text of dumps', buf.getvalue(), s)


h_dump_load.params_for = lambda fixed: {
    k: v for k, v in {**{f'g{i}': int for i in range(fixed['n'])},
                      **({'meta0': int} if fixed['n'] else {}),
                      'indent': int, 'joiner': int, 'compact': int}.items()
    if k not in fixed}


def e1_terminators():
    """For every line w without LF/CR and every alternative of the live
    patterns: w + terminator has no token that w does not have: no
    alternative can match a terminator, none can extend over it except
    STRING (raw CR inside quotes) - which needs a closing quote after it and
    therefore cannot end at a line end; COMMENT stops before it."""
    L = rx.Lemmas()
    from penman import _lexer
    try:
        pat = {k: rx.from_python(v, re.VERBOSE)
               for k, v in _lexer.PATTERNS.items()}
    except rx.Untranslatable as exc:
        L.errors.append({'message': f'untranslatable: {exc}'})
        return L.result()
    term = rx.any_of(['\n', '\r'])
    for name, r in pat.items():
        L.empty(f'{name}: no token starts at a line terminator',
                rx.intersect(r, rx.concat(term, rx.full())),
                replay_fn='replay_e1')
        if name != 'STRING':
            L.empty(f'{name}: no token ends with or contains LF',
                    rx.intersect(r, rx.concat(rx.full(), rx.lit('\n'),
                                              rx.full())),
                    replay_fn='replay_e1')
    L.empty('STRING: never ends at a line terminator',
            rx.intersect(pat['STRING'], rx.concat(rx.full(), term)),
            replay_fn='replay_e1')
    for name in ('SYMBOL', 'ROLE', 'ALIGNMENT', 'UNEXPECTED'):
        L.empty(f'{name}: holds no CR', rx.intersect(
            pat[name], rx.concat(rx.full(), rx.lit('\r'), rx.full())),
            replay_fn='replay_e1')
    return L.result()


def replay_e1(s: str, lemma: str):
    from penman import _lexer
    name = lemma.split(':')[0]
    p = re.compile(_lexer.PATTERNS[name], re.VERBOSE)
    if 'starts at' in lemma:
        require(not (p.fullmatch(s) and s[:1] in '\n\r'), lemma, s)
    elif 'contains LF' in lemma:
        require(not (p.fullmatch(s) and '\n' in s), lemma, s)
    elif 'never ends' in lemma:
        require(not (p.fullmatch(s) and s[-1:] in '\n\r'), lemma, s)
    else:
        require(not (p.fullmatch(s) and '\r' in s), lemma, s)


def obligations(tier: str) -> List[dict]:
    obs = [{'name': 'E1 line terminators never change the tokens of a line',
            'kind': 'e1', 'fn': 'e1_terminators', 'timeout': 120,
            'bound': 'unbounded length'}]

    def add(fn, name, timeout, marks=None, **fx):
        obs.append({'name': f'E2 {name} {fx}', 'kind': 'e2', 'fn': fn,
                    'fixed': fx, 'timeout': timeout, 'bound': str(fx),
                    'need_marks': marks or []})

    if tier == 'quick':
        add('h_fragments', '(a) fragments', 300, k=2, nf=8, ns=12)
        for f0 in range(6):
            add('h_fragments', '(a) fragments', 400,
                ['two-graphs'] if f0 == 0 else [], k=3, nf=6, ns=7, f0=f0)
        for ti in range(len(TEMPLATES)):
            add('h_symbolic_char', '(a) symbolic character', 400,
                ['exotic-separator', 'line-terminator'], ti=ti,
                graphs=ti in (0, 3))
        for n in (0, 1):
            add('h_dump_load', '(b) dump/load', 300, n=n)
        for g0 in range(len(GRAPH_TEXTS)):
            add('h_dump_load', '(b) dump/load', 400,
                ['metadata-multi'] if g0 == 1 else [], n=2, g0=g0)
    else:
        for f0 in range(8):
            add('h_fragments', '(a) fragments', 1800, k=3, nf=8, ns=12,
                f0=f0)
        for f0 in range(5):
            for s0 in range(5):
                add('h_fragments', '(a) fragments', 1800, k=4, nf=5, ns=5,
                    f0=f0, s0=s0)
        for ti in range(len(TEMPLATES)):
            add('h_symbolic_char', '(a) symbolic character', 1800,
                ['exotic-separator', 'line-terminator'], ti=ti, graphs=True)
        for n in (0, 1):
            add('h_dump_load', '(b) dump/load', 600, n=n)
        for g0 in range(len(GRAPH_TEXTS)):
            add('h_dump_load', '(b) dump/load', 1800, n=2, g0=g0)
            add('h_dump_load', '(b) dump/load', 1800, n=3, g0=g0, meta0=1,
                compact=0)
    return obs


LEVEL_TEXT = ('Bounded model checking + regex algebra: texts assembled from '
              'solver-chosen fragments and separators, and texts with one '
              'fully symbolic character, are lexed and decoded by the real '
              'code as a string, as lines, as lines with terminators and as a '
              'file object, and must agree; lists of graphs survive dumps/'
              'loads/dump/load under every option; E1 decides that a line '
              'terminator never changes the tokens of a line.')
LEVEL_NOTE = ('StringIO stands for the file (universal newlines contract). '
              'Lines with terminators are compared on the realised '
              'representative of each path (CrossHair $ model) and decided '
              'symbolically only through the E1 lemma. Trusted: CrossHair/z3.')
TECHNIQUE = ('CrossHair/z3 bounded symbolic execution of lex/loads/load/'
             'dumps/dump over solver-chosen texts incl. a symbolic character '
             '+ z3 regex algebra on line terminators')
