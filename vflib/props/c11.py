"""
C11  Edge reification and dereification are mutually inverse.

E2: decoded tree programs over reifiable / non-reifiable roles (edges,
attributes, inverted edges, re-entrancies, aligned roles/targets/concepts,
pre-existing variables "_" and "_2"); every reifiable role of the live AMR
table on three fixed shapes; collapse guards of dereify_edges.
"""

from __future__ import annotations

import json
import os
from typing import List

from vflib import graphcheck, models, progs
from vflib.engine import Violation, assume, bound_int, mark, require
from vflib.progs import NO_CONCEPT
from vflib.props.c02 import well_formed

ID = 'C11'
FUNCTIONS = ['penman.transform.reify_edges', 'penman.transform.dereify_edges',
             'penman.transform._dereify_agenda',
             'penman.transform._edge_markers',
             'penman.transform._reified_markers', 'penman.model.Model.reify',
             'penman.model.Model.dereify',
             'penman.model.Model.is_role_reifiable',
             'penman.model.Model.is_concept_dereifiable',
             'penman.layout.appears_inverted',
             'penman.layout.get_pushed_variable',
             'penman.layout.node_contexts', 'penman.codec._encode',
             'penman.codec._decode']
BOUNDS = {
    'quick': 'trees of <= 2 branches (3 with small catalogue) over 5 roles, '
             'models amr/custom/default; every reifiable role of the live '
             'AMR table x 3 shapes; 16 guard combinations',
    'thorough': 'trees of <= 3 branches full catalogue, 4 small',
}
ASSUMPTIONS = [
    'catalogue concepts are not dereifiable (the graph contains no '
    'collapsible reified node to begin with)',
    'roles whose reification concept dereifies to more than one role '
    '(computed from the live table) are carved out while known finding F4 is '
    'listed: the property restricts itself to unambiguous tables',
]
OUTSIDE = ['graphs beyond the bound']

ROLES = {'amr': [':mod', ':mod-of~e.4', ':ARG0', ':location~1', ':ARG1-of'],
         'custom': [':r', ':r-of~x3', ':q1', ':q1-of~2', ':t'],
         'default': [':mod', ':mod-of', ':ARG0']}
ATOMS = ['a', '_', '7', 'x~2']
CONCEPTS = ['y', 'z~3', NO_CONCEPT, '_']
VARNAMES = ['a', '_', '_2', 'b']


def known_active(fid):
    path = os.path.join(os.path.dirname(os.path.dirname(
        os.path.dirname(os.path.abspath(__file__)))), 'known_findings.json')
    try:
        for k in json.load(open(path))['findings']:
            if k['id'] == fid and k.get('status') == 'known':
                return True
    except OSError:
        pass
    return False


def ambiguous_roles(real):
    """Roles whose reification cannot be told from another role's: same
    concept and the same unordered pair of source/target roles (dereify()
    accepts either orientation).  Two roles that share a concept but use
    different argument roles (AMR :employed-by / :role) are NOT ambiguous."""
    out = set()
    for role, specs in real.reifications.items():
        concept, src, tgt = specs[0]
        for other, osrc, otgt in real.dereifications.get(concept, []):
            if other != role and {osrc, otgt} == {src, tgt}:
                out.add(role)
    return out


def check_roundtrip(g, real, ref, context):
    import penman
    from penman import transform
    before = list(g.triples)
    text0 = penman.encode(g, model=real)
    try:
        r = transform.reify_edges(g, real)
        d = transform.dereify_edges(r, real)
    except Exception as exc:
        raise Violation(f'{type(exc).__name__}: {exc}', context)
    require(list(g.triples) == before, 'reify_edges modified its argument')
    for t in r.triples:
        require(not real.is_role_reifiable(t[1]), 'reifiable role left', t,
                context)
    newvars = r.variables() - g.variables()
    reifiable = [t for t in before if real.is_role_reifiable(t[1])]
    if reifiable:
        mark('reified')
    require(len(newvars) == len(reifiable), 'one fresh variable per reified '
            'triple', context, newvars, reifiable)
    require(r.top == g.top, 'reify changed the top', context)
    kept = [t for t in r.triples if t[0] not in newvars
            and t[2] not in newvars]
    require(kept == [t for t in before if not real.is_role_reifiable(t[1])],
            'other triples not kept', context, r.triples)
    require(d.top == g.top, 'dereify changed the top', context)
    require(list(d.triples) == before, 'dereify(reify(g)) != g', context,
            r.triples, d.triples)
    try:
        text1 = penman.encode(d, model=real)
        textr = penman.encode(r, model=real)
        gr = penman.decode(textr, model=real)
    except Exception as exc:
        raise Violation(f'encode raised {type(exc).__name__}: {exc}', context)
    require(text1 == text0, 'encoded text differs after reify+dereify',
            context, text0, text1)
    graphcheck.same_content(list(r.triples), r.top, gr, ref,
                            (context, textr))


def h_tree(model: str, n: int, small: bool, **sym):
    from penman import layout
    from penman.tree import Tree
    real, ref = models.get(model)
    roles = ROLES[model][:3] if small else ROLES[model]
    atoms = ATOMS[:3] if small else ATOMS
    concepts = ['y', NO_CONCEPT] if small else CONCEPTS
    node = progs.tree_program(sym, n, roles, atoms, concepts,
                              varnames=VARNAMES)
    assume(well_formed(node, ref))
    g = layout.interpret(Tree(progs.copy_tree(node)), real)
    if '_' in g.variables():
        mark('underscore-variable')
    check_roundtrip(g, real, ref, node)


h_tree.params_for = lambda fixed: {
    k: v for k, v in progs.tree_params(fixed['n']).items() if k not in fixed}

SHAPES = ['(a / x {r} 7)', '(a / x {r} (b / y))', '(a / x {r}-of (b / y))',
          '(a / x {r}~e.1 b~2 :ARG0 (b / y))']


def h_amr_roles(ri: int, si: int):
    """Every reifiable role of the live AMR table on fixed shapes."""
    import penman
    real, ref = models.get('amr')
    roles = sorted(real.reifications)
    bound_int(ri, 0, len(roles))
    bound_int(si, 0, len(SHAPES))
    role = progs.pick(ri, roles)
    if known_active('F4'):
        assume(role not in ambiguous_roles(real))
    else:
        if role in ambiguous_roles(real):
            mark('ambiguous-role')
    shape = progs.pick(si, SHAPES)
    g = penman.decode(shape.replace('{r}', role), model=real)
    check_roundtrip(g, real, ref, (role, shape))


def h_f4_witness(role: str):
    """Known finding F4: a role whose concept dereifies to two roles."""
    import penman
    real, ref = models.get('amr')
    g = penman.decode(f'(a / x {role} 7)', model=real)
    check_roundtrip(g, real, ref, role)


_EXTRA = ['', ' :ARG3 z', ' :ARG2 w']   # none / third role / repeated role


def h_guards(extra: int, is_top: bool, referenced: bool, inverted: bool):
    """dereify_edges never collapses a node that has another relation, is the
    top, or is referenced elsewhere; otherwise it does collapse it."""
    import penman
    from penman import transform
    bound_int(extra, 0, 3)
    real, ref = models.get('amr')
    inner = '(_ / have-mod-91 :ARG2 (b / y)' + _EXTRA[extra] \
        + ')'
    if is_top:
        text = '(_ / have-mod-91 :ARG1 (a / x) :ARG2 (b / y)' + \
            _EXTRA[extra] + \
            (' :ARG0-of (c / w :ARG1 _)' if referenced else '') + ')'
    else:
        # the reified node hangs off a, nested (inverted) or after b's node
        link = (':ARG1-of ' + inner) if not inverted else \
            (':ARG0 (b / y) :ARG1-of (_ / have-mod-91 :ARG2 b'
             + _EXTRA[extra] + ')')
        text = '(a / x ' + link + (' :ARG5 _' if referenced else '') + ')'
    g = penman.decode(text, model=real)
    before = list(g.triples)
    try:
        d = transform.dereify_edges(g, real)
        s = penman.encode(d, model=real)
        g2 = penman.decode(s, model=real)
    except Exception as exc:
        raise Violation(f'{type(exc).__name__}: {exc}', text)
    must_keep = extra != 0 or is_top or referenced
    collapsed = '_' not in d.variables()
    if must_keep:
        mark('kept')
        require(not collapsed and list(d.triples) == before,
                'a node with another relation / top / referenced elsewhere '
                'was collapsed', text, d.triples)
    else:
        mark('collapsed')
        require(collapsed and ('a', ':mod', 'b') in d.triples,
                'a collapsible node was not collapsed', text, d.triples)
    graphcheck.same_content(list(d.triples), d.top, g2, ref, (text, s))


def obligations(tier: str) -> List[dict]:
    obs = []

    def add(fn, name, timeout, marks=None, **fx):
        obs.append({'name': f'E2 {name} {fx}', 'kind': 'e2', 'fn': fn,
                    'fixed': fx, 'timeout': timeout, 'bound': str(fx),
                    'need_marks': marks or []})

    add('h_amr_roles', 'every AMR reifiable role x shape', 600, ['reified'])
    add('h_guards', 'collapse guards', 300, ['kept', 'collapsed'])
    if tier == 'quick':
        for m in ('amr', 'custom'):
            add('h_tree', 'tree', 300, ['reified'], model=m, n=1, small=False)
            for op in (0, 1):
                for r0 in range(5):
                    add('h_tree', 'tree', 400, ['underscore-variable']
                        if (op and r0 == 0) else [], model=m, n=2,
                        small=False, i0_op=op, i0_r=r0)
        add('h_tree', 'tree', 300, model='default', n=2, small=True)
        for ops in [(0, 0), (0, 1), (1, 0), (1, 1), (1, 2)]:
            add('h_tree', 'tree', 400, model='amr', n=3, small=True,
                i0_op=ops[0], i1_op=ops[1])
    else:
        OPS2 = [(0, 0), (0, 1), (1, 0), (1, 1), (1, 2)]
        for m in ('amr', 'custom'):
            add('h_tree', 'tree', 600, ['reified'], model=m, n=1,
                small=False)
            for op in (0, 1):
                add('h_tree', 'tree', 1800, model=m, n=2, small=False,
                    i0_op=op)
            for ops in OPS2:
                add('h_tree', 'tree', 1800, model=m, n=3, small=True,
                    i0_op=ops[0], i1_op=ops[1])
        for ops in OPS2:
            for r0 in range(5):
                add('h_tree', 'tree', 1800, model='amr', n=3, small=False,
                    i0_op=ops[0], i1_op=ops[1], i0_r=r0)
    return obs


LEVEL_TEXT = ('Bounded model checking: reify_edges then dereify_edges are '
              'executed by the real code on every decoded tree up to the bound '
              'and on every reifiable role of the live AMR table; freshness, '
              'top, kept triples, exact restoration (triples and encoded '
              'text, alignments included) and the collapse guards are '
              'asserted.')
LEVEL_NOTE = ('Bounded by branch count and catalogues; ambiguous roles '
              '(F4) carved out while listed as a known finding. Trusted: '
              'CrossHair/z3; every path re-validated natively.')
TECHNIQUE = ('CrossHair/z3 bounded symbolic execution of reify_edges/'
             'dereify_edges over solver-chosen decoded graphs and the live '
             'reification table')
