"""
C08  Tokens tile the input and follow the documented lexical grammar.

E1 (unbounded string length, z3 regex theory over the live PATTERNS):
  class languages equal the documented PEG, no empty match, no alternative
  starts at a blank, UNEXPECTED is exactly one non-blank character, FIRST
  sets, STRING prefix-free.
E2 (bounded): the real lex()/_lex() on a symbolic line against a
  character-level reference lexer: order, offsets, text, lineno, class.
"""

from __future__ import annotations

from typing import List

from vflib import rx
from vflib.engine import Violation, assume, mark, require
from vflib.oracles import ref_lex_line

ID = 'C08'
FUNCTIONS = ['penman._lexer.PATTERNS', 'penman._lexer._compile',
             'penman._lexer.PENMAN_RE', 'penman._lexer.TRIPLE_RE',
             'penman._lexer.lex', 'penman._lexer._lex',
             'penman._lexer.Token', 'penman._lexer.TokenIterator.__next__']
BOUNDS = {
    'quick': 'E1: unbounded length, code points <= U+2FFFF (z3 char sort); '
             'E2: one line of <= 3 characters (any Unicode, no LF), second '
             'line fixed, both patterns',
    'thorough': 'E1 as quick; E2: one line of <= 4 characters sliced by the '
                'class of the first character',
}
ASSUMPTIONS = [
    'E2 lines contain no LF (CrossHair models $ as end-of-string only); '
    'lines with a trailing terminator are covered by C09',
    "extent of a greedy single-class repetition (SYMBOL, ROLE) and of "
    "ALIGNMENT's greedy tail is the maximal run: an argument, validated "
    'differentially by the E2 slices',
    'STRING is compared with the PEG modulo raw CR/VT/FF inside the quotes '
    '(the property counts them as covered by the string token)',
]
OUTSIDE = ['lines longer than the E2 bound are covered only by the E1 '
           'language lemmas', 'code points above U+2FFFF in E1']

BLANKS = [' ', '\t', '\r', '\n', '\v', '\f']
NAME_EXCL = BLANKS + ['"', '(', ')', '/', ':', '~']

PENMAN_ORDER = ['COMMENT', 'STRING', 'LPAREN', 'RPAREN', 'SLASH', 'ROLE',
                'SYMBOL', 'ALIGNMENT', 'UNEXPECTED']
TRIPLE_ORDER = ['COMMENT', 'STRING', 'LPAREN', 'RPAREN', 'SYMBOL',
                'UNEXPECTED']


# ---- documented PEG, transcribed by hand into z3 regexes -------------------

def peg():
    namechar = rx.none_of(NAME_EXCL)
    digit = rx.char_range(0x30, 0x39)
    letter = rx.union(rx.char_range(0x61, 0x7a), rx.char_range(0x41, 0x5a))
    strchar = rx.none_of(['\n', '\r', '\f', '\v'])
    # String <- '"' (!'"' (StrEscape / StrChar))* '"'
    # as a regular language: escapes are backslash+StrChar, plain characters
    # are StrChar other than quote and backslash
    plain = rx.none_of(['\n', '\r', '\f', '\v', '"', '\\'])
    return {
        'SYMBOL': rx.plus(namechar),
        'ROLE': rx.concat(rx.lit(':'), rx.star(namechar)),
        'ALIGNMENT': rx.concat(
            rx.lit('~'),
            rx.opt(rx.concat(letter, rx.opt(rx.lit('.')))),
            rx.plus(digit),
            rx.star(rx.concat(rx.lit(','), rx.plus(digit)))),
        'STRING': rx.concat(
            rx.lit('"'),
            rx.star(rx.union(rx.concat(rx.lit('\\'), strchar), plain)),
            rx.lit('"')),
        'LPAREN': rx.lit('('),
        'RPAREN': rx.lit(')'),
        'SLASH': rx.lit('/'),
        'COMMENT': rx.concat(rx.lit('#'), rx.star(rx.none_of(['\n']))),
        'UNEXPECTED': rx.none_of(BLANKS),
    }


def live():
    import re
    from penman import _lexer
    return {name: rx.from_python(pat, re.VERBOSE, end_anchor='drop')
            for name, pat in _lexer.PATTERNS.items()}, _lexer


def group_order(regex):
    idx = sorted((i, n) for n, i in regex.groupindex.items())
    return [n for _, n in idx]


# ---- E1 obligations -----------------------------------------------------------

def e1_languages():
    L = rx.Lemmas()
    try:
        impl, _lexer = live()
    except rx.Untranslatable as exc:
        L.errors.append({'message': f'untranslatable: {exc}'})
        return L.result()
    ref = peg()
    for name in ('SYMBOL', 'ROLE', 'ALIGNMENT', 'LPAREN', 'RPAREN', 'SLASH',
                 'COMMENT', 'UNEXPECTED'):
        L.empty(f'{name}: documented \\ implemented', rx.difference(
            ref[name], impl[name]), replay_fn='replay_class')
        L.empty(f'{name}: implemented \\ documented', rx.difference(
            impl[name], ref[name]), replay_fn='replay_class')
    # STRING: documented subset of implemented; the surplus only with raw
    # CR/VT/FF (LF cannot occur inside a line) inside the quotes
    L.empty('STRING: documented \\ implemented',
            rx.difference(ref['STRING'], impl['STRING']),
            replay_fn='replay_class')
    has_ctl = rx.concat(rx.full(), rx.any_of(['\n', '\r', '\v', '\f']),
                        rx.full())
    L.empty('STRING: implemented \\ documented has no CR/LF/VT/FF-free member',
            rx.difference(rx.difference(impl['STRING'], ref['STRING']),
                          has_ctl), replay_fn='replay_class')
    # STRING is prefix-free: the token extent is unique
    L.empty('STRING: prefix-free', rx.intersect(
        impl['STRING'], rx.concat(impl['STRING'], rx.plus(rx.allchar()))),
        replay_fn='replay_prefix')
    # maximal munch as language facts: the name classes are closed under
    # appending a name character (so the greedy match is the maximal run and
    # a mutant that bounds the repetition is visible at any length)
    namechar = rx.none_of(NAME_EXCL)
    digit = rx.char_range(0x30, 0x39)
    L.empty('SYMBOL + name character is a SYMBOL (extension-closed)',
            rx.difference(rx.concat(impl['SYMBOL'], namechar),
                          impl['SYMBOL']), replay_fn='replay_ext')
    L.empty('ROLE + name character is a ROLE (extension-closed)',
            rx.difference(rx.concat(impl['ROLE'], namechar), impl['ROLE']),
            replay_fn='replay_ext')
    L.empty('ALIGNMENT + digit is an ALIGNMENT', rx.difference(
        rx.concat(impl['ALIGNMENT'], digit), impl['ALIGNMENT']),
        replay_fn='replay_ext')
    L.empty('ALIGNMENT + ",digit" is an ALIGNMENT', rx.difference(
        rx.concat(impl['ALIGNMENT'], rx.lit(','), digit), impl['ALIGNMENT']),
        replay_fn='replay_ext')
    L.empty('COMMENT + any non-LF character is a COMMENT', rx.difference(
        rx.concat(impl['COMMENT'], rx.none_of(['\n'])), impl['COMMENT']),
        replay_fn='replay_ext')
    for name in impl:
        L.empty(f'{name}: never matches the empty string',
                rx.intersect(impl[name], rx.lit('')),
                replay_fn='replay_class')
        L.empty(f'{name}: never starts at a blank', rx.intersect(
            impl[name], rx.concat(rx.any_of(BLANKS), rx.full())),
            replay_fn='replay_class')
        L.nonempty(f'{name}: language is inhabited', impl[name])
    # FIRST sets
    first = {'COMMENT': ['#'], 'STRING': ['"'], 'ROLE': [':'],
             'ALIGNMENT': ['~'], 'LPAREN': ['('], 'RPAREN': [')'],
             'SLASH': ['/']}
    for name, chars in first.items():
        L.empty(f'{name}: FIRST subset of {chars}', rx.difference(
            impl[name], rx.concat(rx.any_of(chars), rx.full())),
            replay_fn='replay_class')
    L.empty('SYMBOL: FIRST is a name character', rx.difference(
        impl['SYMBOL'], rx.concat(rx.none_of(NAME_EXCL), rx.full())),
        replay_fn='replay_class')
    # exotic separators are name characters, not blanks
    for c in ['\xa0', '　', ' ', '\x85', ' ', '\x1c', '\x1f']:
        L.empty(f'U+{ord(c):04X} is a symbol character',
                rx.difference(rx.lit('a' + c + 'b'), impl['SYMBOL']),
                replay_fn='replay_class')
    res = L.result()
    # structural facts about the live alternations (order matters)
    for label, regex, want in (('PENMAN_RE', _lexer.PENMAN_RE, PENMAN_ORDER),
                               ('TRIPLE_RE', _lexer.TRIPLE_RE, TRIPLE_ORDER)):
        got = group_order(regex)
        ok = got == want
        res['queries'].append({'name': f'{label}: alternation order',
                               'result': 'ok' if ok else 'mismatch',
                               'got': got})
        if not ok:
            res['failures'].append({
                'kwargs': {'s': '', 'lemma': f'{label} order {got}'},
                'message': f'{label} order {got} != documented {want}',
                'replay_fn': 'replay_order'})
    return res


def _impl_fullmatch(name, s):
    import re
    from penman import _lexer
    return re.compile(_lexer.PATTERNS[name], re.VERBOSE).fullmatch(s) \
        is not None


def _peg_fullmatch(name, s):
    """Character-level matcher for the documented classes (independent of
    the z3 transcription above)."""
    from vflib import oracles as o
    if name == 'SYMBOL':
        return len(s) > 0 and all(o.is_namechar(c) for c in s)
    if name == 'ROLE':
        return s[:1] == ':' and all(o.is_namechar(c) for c in s[1:])
    if name == 'ALIGNMENT':
        return s[:1] == '~' and o._scan_alignment(s, 0) == len(s)
    if name == 'STRING':
        if len(s) < 2 or s[0] != '"':
            return False
        j = 1
        while j < len(s):
            c = s[j]
            if c == '"':
                return j + 1 == len(s)
            if c in '\n\r\f\v':
                return False
            if c == '\\':
                if j + 1 < len(s) and s[j + 1] not in '\n\r\f\v':
                    j += 2
                    continue
                return False
            j += 1
        return False
    if name in ('LPAREN', 'RPAREN', 'SLASH'):
        return s == {'LPAREN': '(', 'RPAREN': ')', 'SLASH': '/'}[name]
    if name == 'COMMENT':
        return s[:1] == '#' and '\n' not in s
    if name == 'UNEXPECTED':
        return len(s) == 1 and not o.is_blank(s)
    raise KeyError(name)


def replay_class(s: str, lemma: str):
    """Native confirmation of an E1 witness against the real `re`."""
    name = lemma.split(':')[0]
    if name.startswith('U+'):
        require(_impl_fullmatch('SYMBOL', s), lemma, s)
        return
    impl = _impl_fullmatch(name, s)
    if 'never matches the empty' in lemma:
        require(not (s == '' and impl), lemma, s)
        return
    if 'never starts at a blank' in lemma:
        require(not (impl and s[:1] in BLANKS), lemma, s)
        return
    if 'FIRST' in lemma:
        ok = {'COMMENT': '#', 'STRING': '"', 'ROLE': ':', 'ALIGNMENT': '~',
              'LPAREN': '(', 'RPAREN': ')', 'SLASH': '/'}
        if name == 'SYMBOL':
            from vflib.oracles import is_namechar
            require(not impl or (s and is_namechar(s[0])), lemma, s)
        else:
            require(not impl or s[:1] == ok[name], lemma, s)
        return
    ref = _peg_fullmatch(name, s)
    if name == 'STRING' and impl and not ref and \
            any(c in s for c in '\n\r\v\f'):
        return
    require(impl == ref, f'{lemma}: implemented={impl} documented={ref}', s)


def replay_ext(s: str, lemma: str):
    name = lemma.split(' ')[0]
    require(_impl_fullmatch(name, s) or not _impl_fullmatch(name, s[:-1])
            if not lemma.startswith('ALIGNMENT + ",')
            else (_impl_fullmatch(name, s)
                  or not _impl_fullmatch(name, s[:-2])), lemma, s)


def replay_prefix(s: str, lemma: str):
    for k in range(1, len(s)):
        require(not (_impl_fullmatch('STRING', s) and
                     _impl_fullmatch('STRING', s[:k])), lemma, s, s[:k])


def replay_order(s: str, lemma: str):
    from penman import _lexer
    require(group_order(_lexer.PENMAN_RE) == PENMAN_ORDER, lemma)
    require(group_order(_lexer.TRIPLE_RE) == TRIPLE_ORDER, lemma)


# ---- E2: the real lexer glue ---------------------------------------------------

FIRST_CLASSES = {
    'hash': '#', 'quote': '"', 'lparen': '(', 'rparen': ')', 'slash': '/',
    'colon': ':', 'tilde': '~', 'blank': ' \t\r\v\f', 'backslash': '\\',
}


def _in_first_class(c: str, cls: str) -> bool:
    if cls == 'any':
        return True
    if cls in FIRST_CLASSES:
        return c in FIRST_CLASSES[cls]
    if cls == 'digit':
        return '0' <= c <= '9'
    if cls == 'letter':
        return ('a' <= c <= 'z') or ('A' <= c <= 'Z')
    if cls == 'other':
        special = ''.join(FIRST_CLASSES.values())
        return not (c in special or '0' <= c <= '9' or 'a' <= c <= 'z'
                    or 'A' <= c <= 'Z')
    raise KeyError(cls)


def h_lex_line(line: str, triples: bool, maxlen: int, first: str):
    """Real lex() on two lines, the first symbolic: tokens tile the line."""
    from penman._lexer import PENMAN_RE, TRIPLE_RE, lex
    assume(len(line) <= maxlen)
    assume('\n' not in line)
    if first != 'any':
        assume(len(line) == maxlen)
        assume(_in_first_class(line[0], first))
    pattern = TRIPLE_RE if triples else PENMAN_RE
    second = 'x (y'
    try:
        toks = list(lex([line, second], pattern=pattern))
    except Exception as exc:
        raise Violation(f'lex raised {type(exc).__name__}: {exc}')
    want = [(t, x, 1, o, line) for t, x, o in ref_lex_line(line, triples)]
    want += [(t, x, 2, o, second) for t, x, o in ref_lex_line(second, triples)]
    got = [(t.type, t.text, t.lineno, t.offset, t.line) for t in toks]
    if len(want) >= 5:
        mark('multi-token')
    require(len(got) == len(want), 'token count', line, got, want)
    end = 0
    for g, w in zip(got, want):
        if g[2] == 1:
            # tiling: in order, non-overlapping, text is the covered span,
            # everything between tokens is an ASCII blank
            require(g[3] >= end, 'tokens overlap / out of order', line, got)
            gap = line[end:g[3]]
            for ch in gap:
                require(ch in ' \t\r\v\f\n', 'non-blank skipped', line, got)
            require(line[g[3]:g[3] + len(g[1])] == g[1],
                    'token text is not the covered span', line, got)
            end = g[3] + len(g[1])
        require(g == w, 'token differs from documented lexical grammar',
                line, g, w)
    for ch in line[end:]:
        require(ch in ' \t\r\v\f\n', 'non-blank skipped at end', line, got)


TXT_FRAGS = ['(a', '', ':b~1 c', 'g\x0ch "d e"', '# f', '~x /', '  ', ')']
TXT_SEPS = ['\n', '\n\n', '\r\n', '\r', '\r\r\n', ' ', '\u2028']


def h_lex_string(k: int, triples: bool, nf: int, ns: int, **sym):
    """String input: line numbers count every LF / CRLF / CR line (blank
    lines included), nothing else ends a line."""
    from penman._lexer import PENMAN_RE, TRIPLE_RE, lex
    from vflib import progs
    from vflib.engine import bound_int
    from vflib.oracles import ref_split_lines
    pieces = []
    for i in range(k):
        fi = sym[f'f{i}']
        bound_int(fi, 0, nf)
        pieces.append(progs.pick(fi, TXT_FRAGS[:nf]))
        if i < k - 1:
            si = sym[f's{i}']
            bound_int(si, 0, ns)
            pieces.append(progs.pick(si, TXT_SEPS[:ns]))
    text = ''.join(pieces)
    from vflib.engine import case
    case(text)
    want = []
    for ln, line in enumerate(ref_split_lines(text), 1):
        want += [(t, x, ln, o) for t, x, o in ref_lex_line(line, triples)]
    try:
        got = [(t.type, t.text, t.lineno, t.offset)
               for t in lex(text, pattern=TRIPLE_RE if triples else PENMAN_RE)]
    except Exception as exc:
        raise Violation(f'lex raised {type(exc).__name__}: {exc}', text)
    if want and want[-1][2] >= 3:
        mark('third-line')
    require(got == want, 'tokens of a string input differ from the '
            'documented lexical grammar / line numbering', text, got, want)
    # the same text under the other pattern, in the same process: the result
    # depends on (text, pattern) only
    want2 = []
    for ln, line in enumerate(ref_split_lines(text), 1):
        want2 += [(t, x, ln, o) for t, x, o in ref_lex_line(line, not triples)]
    got2 = [(t.type, t.text, t.lineno, t.offset)
            for t in lex(text, pattern=PENMAN_RE if triples else TRIPLE_RE)]
    require(got2 == want2, 'tokens under the other pattern differ (after '
            'lexing the same text with the first)', text, got2, want2)


h_lex_string.params_for = lambda fixed: {
    k: v for k, v in {**{f'f{i}': int for i in range(fixed['k'])},
                      **{f's{i}': int for i in range(fixed['k'] - 1)}}.items()
    if k not in fixed}


def obligations(tier: str) -> List[dict]:
    obs = [{'name': 'E1 class languages / first sets / order', 'kind': 'e1',
            'fn': 'e1_languages', 'timeout': 120,
            'bound': 'unbounded length'}]
    for trip in (False, True):
        kk = 3 if tier == 'quick' else 4
        nf, ns = (5, 5) if tier == 'quick' else (8, 7)
        for f0 in range(nf):
            if tier == 'quick' and trip and f0 % 2:
                continue
            obs.append({'name': f'E2 lex string input k={kk} triples={trip} '
                                f'f0={f0}', 'kind': 'e2',
                        'fn': 'h_lex_string',
                        'fixed': {'k': kk, 'triples': trip, 'f0': f0,
                                  'nf': nf, 'ns': ns},
                        'timeout': 300 if tier == 'quick' else 3000,
                        'bound': f'{kk} fragments x separators',
                        'need_marks': ['third-line'] if f0 == 0 else []})
    if tier == 'quick':
        for trip in (False, True):
            obs.append({'name': f'E2 lex line len<=2 triples={trip}',
                        'kind': 'e2', 'fn': 'h_lex_line',
                        'fixed': {'triples': trip, 'maxlen': 2,
                                  'first': 'any'},
                        'timeout': 90, 'bound': 'len(line) <= 2',
                        'need_marks': ['multi-token']})
        # blank / letter / other first characters at length 3 need > 100 s
        # of CPU each and are left to the thorough tier
        classes = [c for c in FIRST_CLASSES if c != 'blank'] + ['digit']
        for cls in classes:
            obs.append({'name': f'E2 lex line len=3 first={cls}',
                        'kind': 'e2', 'fn': 'h_lex_line',
                        'fixed': {'triples': False, 'maxlen': 3,
                                  'first': cls},
                        'timeout': 200, 'bound': 'len(line) == 3'})
    else:
        classes = list(FIRST_CLASSES) + ['digit', 'letter', 'other']
        for trip in (False, True):
            obs.append({'name': f'E2 lex line len<=2 triples={trip}',
                        'kind': 'e2', 'fn': 'h_lex_line',
                        'fixed': {'triples': trip, 'maxlen': 2,
                                  'first': 'any'},
                        'timeout': 300, 'bound': 'len(line) <= 2',
                        'need_marks': ['multi-token']})
            for cls in classes:
                obs.append({
                    'name': f'E2 lex line len=3 first={cls} triples={trip}',
                    'kind': 'e2', 'fn': 'h_lex_line',
                    'fixed': {'triples': trip, 'maxlen': 3, 'first': cls},
                    'timeout': 900, 'bound': 'len(line) == 3'})
        for cls in ('hash', 'quote', 'lparen', 'rparen', 'slash', 'colon',
                    'tilde', 'backslash'):
            obs.append({
                'name': f'E2 lex line len=4 first={cls} triples=False',
                'kind': 'e2', 'fn': 'h_lex_line',
                'fixed': {'triples': False, 'maxlen': 4, 'first': cls},
                'timeout': 1800, 'bound': 'len(line) == 4'})
    return obs

LEVEL_TEXT = ('Bounded model checking by symbolic execution plus unbounded '
              'regex algebra. E1 decides, for strings of any length, that each '
              'token class of the live PATTERNS equals the documented lexical '
              'grammar, that no class matches empty or starts at a blank, that '
              'UNEXPECTED is exactly one non-blank character (hence only the six '
              'ASCII blanks are ever skipped) and that STRING is prefix-free. E2 '
              'executes the real lex/_lex symbolically on every line up to the '
              'length bound (all of Unicode per character) and compares order, '
              'offset, text, lineno and class with a reference lexer.')
LEVEL_NOTE = ('Trusted: z3 sequence/regex theory, the re._parser->z3 '
              'translator (validated by native replay of every witness), '
              'CrossHair models (every path re-validated natively). Bounds: '
              'E2 line length <= 3 quick / <= 4 thorough; maximal-munch of '
              'greedy classes is argued, not solved, beyond that length.')
TECHNIQUE = ('z3 regex-algebra emptiness queries over the live token patterns '
             '+ CrossHair/z3 bounded symbolic execution of lex() against a '
             'reference lexer')
