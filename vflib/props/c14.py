"""
C14  Layout diagnostics agree with the text the graph was decoded from.

E2 over well-formed tree programs: node_contexts / get_pushed_variable /
appears_inverted on interpret(t) against the reference interpretation, and
on marker-free graph programs: "unknown"/False instead of raising.
"""

from __future__ import annotations

from typing import List

from vflib import models, progs
from vflib.engine import Violation, assume, mark, require
from vflib.oracles import ref_interpret
from vflib.progs import NO_CONCEPT
from vflib.props.c02 import well_formed

ID = 'C14'
FUNCTIONS = ['penman.layout.node_contexts', 'penman.layout.appears_inverted',
             'penman.layout.get_pushed_variable', 'penman.layout.interpret',
             'penman.graph.Graph.variables']
BOUNDS = {
    'quick': 'well-formed trees of <= 3 branches (default, amr); marker-free '
             'graphs of <= 2 variables and <= 2 extra triples',
    'thorough': '<= 4 branches; marker-free graphs <= 3 variables, 3 extra',
}
ASSUMPTIONS = ['labels are catalogue entries chosen by the solver',
               'well-formedness evaluated by the reference interpretation']
OUTSIDE = ['trees beyond the branch bound']

ATOMS = ['a', 'b', 'x']
CONCEPTS = [NO_CONCEPT, 'b']


def _roles(model):
    """plain, inverted with a prefixed role alignment (the alignment marker
    then precedes the Push marker), aligned plain"""
    a, b, c = models.ROLES[model][:3]
    return [a, b + '~e.1', c + '~2']


def _decoy(g):
    """The diagnostics depend on their argument only: first query a graph
    with the same top and triples but without any markers (a result cached
    by top/triples would now be wrong for g)."""
    from penman import layout
    from penman.graph import Graph
    d = Graph(list(g.triples), top=g.top)
    layout.node_contexts(d)
    for t in d.triples:
        layout.appears_inverted(d, t)


def h_diagnostics(model: str, n: int, **sym):
    from penman import layout
    from penman.tree import Tree
    real, ref = models.get(model)
    node = progs.tree_program(sym, n, _roles(model), ATOMS, CONCEPTS)
    assume(well_formed(node, ref))
    top, triples, info = ref_interpret(node, ref)
    try:
        g = layout.interpret(Tree(progs.copy_tree(node)), real)
        _decoy(g)
        ctx = layout.node_contexts(g)
        pushed = [layout.get_pushed_variable(g, t) for t in g.triples]
        inverted = [layout.appears_inverted(g, t) for t in g.triples]
    except Exception as exc:
        raise Violation(f'{type(exc).__name__}: {exc}', node)
    require(g.triples == triples, 'triples differ (C04)', node, g.triples)
    depth = len(progs.tree_nodes(node))
    if depth >= 3:
        mark('three-nodes')
    for i, (tr, inf) in enumerate(zip(triples, info)):
        require(ctx[i] == inf['ctx'], 'node context differs', node, tr,
                ctx, [x['ctx'] for x in info])
        require(pushed[i] == inf['pushed'], 'pushed variable differs', node,
                tr, pushed[i], inf['pushed'])
        if tr[0] != tr[2]:
            if inf['written_inverted']:
                mark('inverted')
            require(bool(inverted[i]) == inf['written_inverted'],
                    'appears_inverted differs', node, tr, inverted[i])


def h_deep_diagnostics(model: str, depth: int, ntrail: int, **sym):
    """Deep nesting, several closes on one triple, re-entrancies written
    from an ancestor after the closes."""
    from penman import layout
    from penman.tree import Tree
    from vflib.props.c02 import deep_tree
    real, ref = models.get(model)
    node = deep_tree(sym, depth, ntrail, _roles(model))
    assume(well_formed(node, ref))
    top, triples, info = ref_interpret(node, ref)
    try:
        g = layout.interpret(Tree(progs.copy_tree(node)), real)
        _decoy(g)
        ctx = layout.node_contexts(g)
        pushed = [layout.get_pushed_variable(g, t) for t in g.triples]
        inverted = [layout.appears_inverted(g, t) for t in g.triples]
    except Exception as exc:
        raise Violation(f'{type(exc).__name__}: {exc}', node)
    mark('deep')
    require(g.triples == triples, 'triples differ (C04)', node, g.triples)
    for i, (tr, inf) in enumerate(zip(triples, info)):
        require(ctx[i] == inf['ctx'], 'node context differs', node, tr, ctx)
        require(pushed[i] == inf['pushed'], 'pushed variable differs', node,
                tr, pushed[i])
        if tr[0] != tr[2]:
            require(bool(inverted[i]) == inf['written_inverted'],
                    'appears_inverted differs', node, tr, inverted[i])


def _deep_params(fixed):
    from vflib.props.c02 import deep_params
    return {k: v for k, v in deep_params(fixed['depth'],
                                         fixed['ntrail']).items()
            if k not in fixed}


h_deep_diagnostics.params_for = _deep_params

h_diagnostics.params_for = lambda fixed: {
    k: v for k, v in progs.tree_params(fixed['n']).items() if k not in fixed}

G_ROLES = [':r', ':r-of']
G_CONSTS = ['x']
G_CONCEPTS = ['x', None]


def h_markerless(nv: int, ne: int, explicit_top: bool, **sym):
    """Hand-built graphs (no marker entries at all): diagnostics answer
    unknown/False instead of raising."""
    from penman import layout
    from penman.graph import Graph
    triples = progs.graph_program(sym, nv, ne, G_ROLES, G_CONSTS, G_CONCEPTS)
    triples = progs.permute(triples, sym)
    g = Graph(triples, top=progs.VARS[nv - 1] if explicit_top else None)
    try:
        ctx = layout.node_contexts(g)
        for t in g.triples:
            p = layout.get_pushed_variable(g, t)
            require(p is None, 'pushed variable without markers', triples, t)
            inv = layout.appears_inverted(g, t)
            if t[1] == ':instance' or t[2] not in g.variables():
                require(inv is False, 'attribute/instance reported inverted',
                        triples, t)
    except Violation:
        raise
    except Exception as exc:
        raise Violation(f'{type(exc).__name__} raised on a marker-free '
                        f'graph: {exc}', triples)
    require(len(ctx) == len(g.triples), 'context list length', ctx)
    mark('ran')


h_markerless.params_for = lambda fixed: {
    **progs.graph_params(fixed['nv'], fixed['ne']),
    **progs.perm_params(fixed['nv'] + fixed['ne'])}


def obligations(tier: str) -> List[dict]:
    obs = []

    def tree(model, n, timeout, ops=(), marks=None):
        fixed = {'model': model, 'n': n}
        for j, op in enumerate(ops):
            fixed[f'i{j}_op'] = op
        obs.append({'name': f'E2 diagnostics model={model} n={n} ops={ops}',
                    'kind': 'e2', 'fn': 'h_diagnostics', 'fixed': fixed,
                    'timeout': timeout, 'bound': f'<= {n} branches',
                    'need_marks': marks or []})

    def ml(nv, ne, top, timeout):
        obs.append({'name': f'E2 markerless nv={nv} ne={ne} top={top}',
                    'kind': 'e2', 'fn': 'h_markerless',
                    'fixed': {'nv': nv, 'ne': ne, 'explicit_top': top},
                    'timeout': timeout, 'bound': f'{nv} vars, {ne} extra',
                    'need_marks': ['ran']})

    OPS2 = [(0, 0), (0, 1), (1, 0), (1, 1), (1, 2)]
    if tier == 'quick':
        tree('default', 2, 300)
        tree('amr', 2, 300)
        for ops in OPS2:
            tree('default', 3, 400, ops, ['three-nodes', 'inverted']
                 if ops == (1, 1) else [])
        ml(1, 1, False, 120)
        ml(2, 1, False, 200)
        ml(2, 1, True, 200)
        for m in ('default', 'amr'):
            for depth, nt in ((2, 1), (3, 1), (2, 2)):
                obs.append({'name': f'E2 deep diagnostics model={m} '
                                    f'depth={depth} trailing={nt}',
                            'kind': 'e2', 'fn': 'h_deep_diagnostics',
                            'fixed': {'model': m, 'depth': depth,
                                      'ntrail': nt}, 'timeout': 400,
                            'bound': f'chain of {depth + 1} nodes + {nt} '
                                     'trailing', 'need_marks': ['deep']})
    else:
        tree('default', 2, 600)
        tree('amr', 2, 600)
        for m in ('default', 'amr'):
            for ops in OPS2:
                tree(m, 3, 1200, ops)
        for ops in OPS2:
            for op2 in (0, 1, 2):
                if ops == (0, 0) and op2 == 2:
                    continue
                tree('default', 4, 1800, ops + (op2,))
        for m in ('default', 'amr'):
            for depth, nt in ((2, 2), (3, 1), (3, 2), (4, 1)):
                for lvl in range(depth):
                    obs.append({'name': f'E2 deep diagnostics model={m} '
                                        f'depth={depth} trailing={nt} '
                                        f'level={lvl}', 'kind': 'e2',
                                'fn': 'h_deep_diagnostics',
                                'fixed': {'model': m, 'depth': depth,
                                          'ntrail': nt, 'level': lvl},
                                'timeout': 1800,
                                'bound': f'chain of {depth + 1} nodes',
                                'need_marks': ['deep']})
        ml(1, 1, False, 300)
        ml(2, 1, False, 600)
        ml(2, 1, True, 600)
        ml(2, 2, False, 1800)
        ml(2, 2, True, 1800)
    return obs


LEVEL_TEXT = ('Bounded model checking: for every well-formed tree up to the '
              'branch bound the real diagnostics on the decoded graph are '
              'compared with the node structure of the tree itself; for every '
              'marker-free graph up to the bound they must not raise.')
LEVEL_NOTE = ('Bounded by branch/triple count and catalogues; trusted: '
              'CrossHair/z3, reference interpretation; every path '
              're-validated natively.')
TECHNIQUE = ('CrossHair/z3 bounded symbolic execution of node_contexts/'
             'appears_inverted/get_pushed_variable vs the tree structure')
