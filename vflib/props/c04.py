"""
C04  Decoding yields exactly the documented reading of the notation.

(a) E2 over tree programs WITHOUT the well-formedness precondition
    (duplicate triples, over-inverted roles, concept spelled like a
    variable): interpret() vs an independent reference interpretation.
(b) E2 leaf harnesses with symbolic text: alignment splitting on atoms
    (string-aware) and roles, through _process_atomic/_process_role and
    through decode() + surface.alignments()/role_alignments().
"""

from __future__ import annotations

from typing import List

from vflib import models, progs
from vflib.engine import Violation, assume, chars_not_in, mark, require
from vflib.oracles import (parse_alignment, ref_interpret,
                           split_atom_alignment, split_role_alignment)
from vflib.progs import NO_CONCEPT

ID = 'C04'
FUNCTIONS = ['penman.layout.interpret', 'penman.layout._interpret_node',
             'penman.layout._process_role', 'penman.layout._process_atomic',
             'penman.surface.AlignmentMarker.from_string',
             'penman.surface.alignments', 'penman.surface.role_alignments',
             'penman.model.Model.is_role_inverted',
             'penman.model.Model.invert', 'penman.model.Model.deinvert',
             'penman.models.noop.NoOpModel.deinvert', 'penman.tree.Tree.nodes',
             'penman.graph.Graph.variables', 'penman.codec._decode']
BOUNDS = {
    'quick': 'trees of <= 2 branches (all four models) and <= 3 branches '
             '(small catalogues, default/noop); alignment leaf harnesses with '
             'a symbolic body of <= 3 characters',
    'thorough': 'trees of <= 3 branches full catalogues, <= 4 small; leaf '
                'bodies <= 4 characters',
}
ASSUMPTIONS = [
    'tree labels are catalogue entries chosen by the solver; free text only '
    'in the leaf harnesses (b)',
    'leaf harness strings contain no LF and atoms are parser-producible: a '
    'symbol body without "~" or a quoted string without inner quote/'
    'backslash, optionally followed by a documented alignment',
]
OUTSIDE = ['trees beyond the branch bound', 'escapes inside quoted strings '
           'in the alignment leaf harness (lexing of escapes is C08/C18)']

ROLES = {
    'default': [':r', ':r-of', ':r-of-of', ':q~1'],
    'noop': [':r', ':r-of', ':r-of-of', ':q~1'],
    'amr': [':ARG0', ':ARG0-of', ':consist-of', ':consist-of-of',
            ':mod-of~2'],
    'custom': [':r-of', ':s-of', ':s-of-of', ':q1-of~3'],
}
ATOMS = ['a', 'b', 'x', None, 'b~e.4', '"a"', '"q \\"r\\""~s5', 'x~t6']
CONCEPTS = [NO_CONCEPT, 'x', None, 'b', 'y~5']
ROLES_S = {k: v[:3] for k, v in ROLES.items()}
ATOMS_S = ['a', 'b', 'x']
CONCEPTS_S = [NO_CONCEPT, 'b']


def h_reading(model: str, n: int, small: bool, **sym):
    from penman import layout, surface
    from penman.tree import Tree
    real, ref = models.get(model)
    if small:
        roles, atoms, concepts = ROLES_S[model], ATOMS_S, CONCEPTS_S
    else:
        roles, atoms, concepts = ROLES[model], ATOMS, CONCEPTS
    node = progs.tree_program(sym, n, roles, atoms, concepts)
    top, triples, info = ref_interpret(node, ref)
    try:
        g = layout.interpret(Tree(progs.copy_tree(node)), real)
        got_triples = list(g.triples)
        got_top = g.top
        got_vars = g.variables()
        alns = surface.alignments(g)
        ralns = surface.role_alignments(g)
    except Exception as exc:
        raise Violation(f'{type(exc).__name__}: {exc}', node)
    require(got_top == top, 'top differs', node, got_top)
    require(got_triples == triples, 'triples differ from documented reading',
            node, got_triples, triples)
    want_vars = set(v for v, _ in progs.tree_nodes(node))
    require(got_vars == want_vars, 'variables differ', got_vars, want_vars)
    # alignments: never inside a triple, reported on the triple they followed
    for s, r, t in got_triples:
        require('~' not in r, 'alignment left in role', r)
        require(not (isinstance(t, str) and not t.startswith('"')
                     and '~' in t), 'alignment left in target', t)
    uniq = all(triples.count(t) == 1 for t in triples)
    if not uniq:
        mark('duplicate-triples')
    for tr, inf in zip(triples, info):
        if inf['written_inverted']:
            mark('deinverted')
        if not uniq:
            continue
        if inf['tgt_aln'] is None:
            require(tr not in alns, 'alignment invented', tr, alns)
        else:
            mark('target-alignment')
            pre, idx = parse_alignment(inf['tgt_aln'])
            require(tr in alns and alns[tr].indices == idx
                    and alns[tr].prefix == pre, 'target alignment wrong',
                    tr, alns.get(tr), inf['tgt_aln'])
        if inf['role_aln'] is None:
            require(tr not in ralns, 'role alignment invented', tr, ralns)
        else:
            mark('role-alignment')
            pre, idx = parse_alignment(inf['role_aln'])
            require(tr in ralns and ralns[tr].indices == idx
                    and ralns[tr].prefix == pre, 'role alignment wrong',
                    tr, ralns.get(tr), inf['role_aln'])


h_reading.params_for = lambda fixed: {
    k: v for k, v in progs.tree_params(fixed['n']).items() if k not in fixed}


# ---- leaf harnesses: free text ---------------------------------------------------

ALNS = ['', '~1', '~e.2', '~E3,4', '~12', '~a.0,10']
NAME_EXCL = ' \t\r\n\v\f"()/:~'


def h_atom_alignment(body: str, quoted: bool, ai: int, maxlen: int):
    """An atom as the parser builds it: SYMBOL or STRING text followed by an
    optional ALIGNMENT text."""
    from penman import surface
    from penman.layout import _process_atomic
    progs.in_range(ai, len(ALNS))
    aln = progs.pick(ai, ALNS)
    assume(len(body) <= maxlen)
    if quoted:
        chars_not_in(body, '"\\\n\r')
        text = '"' + body + '"'
        if '~' in body:
            mark('tilde-in-string')
    else:
        assume(len(body) >= 1)
        chars_not_in(body, NAME_EXCL)
        assume(body[0] != '#')
        text = body
    atom = text + aln
    try:
        target, epis = _process_atomic(atom)
    except Exception as exc:
        raise Violation(f'{type(exc).__name__}: {exc}', atom)
    require(target == text, 'alignment split changed the atom', atom, target)
    if aln:
        mark('aligned')
        pre, idx = parse_alignment(aln[1:])
        require(len(epis) == 1 and epis[0].indices == idx
                and epis[0].prefix == pre and epis[0].mode == 2,
                'alignment wrong', atom, epis)
    else:
        require(len(epis) == 0, 'alignment invented', atom, epis)


def h_role_alignment(body: str, ai: int, maxlen: int, model: str):
    from penman.layout import _process_role
    real, ref = models.get(model)
    progs.in_range(ai, len(ALNS))
    aln = progs.pick(ai, ALNS)
    assume(len(body) <= maxlen)
    chars_not_in(body, NAME_EXCL)
    role = ':' + body
    try:
        r, epis = _process_role(role + aln)
    except Exception as exc:
        raise Violation(f'{type(exc).__name__}: {exc}', role + aln)
    require(r == role, 'role changed by alignment split', role, r)
    if aln:
        pre, idx = parse_alignment(aln[1:])
        require(len(epis) == 1 and epis[0].indices == idx
                and epis[0].prefix == pre and epis[0].mode == 1,
                'role alignment wrong', role + aln, epis)
    else:
        require(len(epis) == 0, 'role alignment invented', role, epis)
    # decode: inverted role on a constant is left as written; on a node it
    # is deinverted once (never under the no-op model)
    # the documented reading of the role: deinverted once (with swap) iff it
    # is inverted; never under the no-op model.  (interpret() itself hashes
    # its triples, so free text cannot go through it symbolically; the
    # composition interpret = split + deinvert is checked in h_reading.)
    try:
        got = real.deinvert(('a', r, 'b'))
    except Exception as exc:
        raise Violation(f'deinvert raised {type(exc).__name__}: {exc}', role)
    inv = ref.deinverts and ref.is_inverted(role)
    if inv:
        mark('inverted')
    want = ('b', ref.invert_role(role), 'a') if inv else ('a', role, 'b')
    require(got == want, 'deinverted reading differs', role, got, want)


def obligations(tier: str) -> List[dict]:
    obs = []

    def tree(model, n, small, timeout, ops=(), marks=None):
        fixed = {'model': model, 'n': n, 'small': small}
        for j, op in enumerate(ops):
            fixed[f'i{j}_op'] = op
        obs.append({'name': f'E2 reading model={model} n={n} small={small} '
                            f'ops={ops}', 'kind': 'e2', 'fn': 'h_reading',
                    'fixed': fixed, 'timeout': timeout,
                    'bound': f'<= {n} branches', 'need_marks': marks or []})

    def leaf(fn, timeout, marks=None, **fixed):
        obs.append({'name': f'E2 {fn} {fixed}', 'kind': 'e2', 'fn': fn,
                    'fixed': fixed, 'timeout': timeout,
                    'bound': f'body <= {fixed["maxlen"]} chars',
                    'need_marks': marks or []})

    OPS2 = [(0, 0), (0, 1), (1, 0), (1, 1), (1, 2)]
    if tier == 'quick':
        for m in ('default', 'amr', 'noop', 'custom'):
            tree(m, 1, False, 120)
            for op in (0, 1):
                if m in ('amr', 'custom', 'noop'):
                    tree(m, 2, True, 400, (op,))
                    continue
                for r0 in range(len(ROLES[m])):
                    obs.append({
                        'name': f'E2 reading model={m} n=2 small=False '
                                f'ops=({op},) i0_r={r0}', 'kind': 'e2',
                        'fn': 'h_reading',
                        'fixed': {'model': m, 'n': 2, 'small': False,
                                  'i0_op': op, 'i0_r': r0},
                        'timeout': 400, 'bound': '<= 2 branches',
                        'need_marks': ['duplicate-triples', 'deinverted',
                                       'target-alignment']
                        if (op == 0 and m == 'default' and r0 == 1) else []})
        for m in ('default', 'noop'):
            for ops in OPS2:
                tree(m, 3, True, 400, ops)
        leaf('h_atom_alignment', 300, ['tilde-in-string', 'aligned'],
             quoted=True, maxlen=3)
        leaf('h_atom_alignment', 300, ['aligned'], quoted=False, maxlen=3)
        # (the AMR role table is a 100-way alternation: a symbolic role string
        # through it does not finish; AMR roles are covered by h_reading)
        for m in ('default', 'noop', 'custom'):
            leaf('h_role_alignment', 300, ['inverted'] if m != 'noop' else [],
                 maxlen=4 if m == 'noop' else 3, model=m)
    else:
        OPS2 = [(0, 0), (0, 1), (1, 0), (1, 1), (1, 2)]
        for m in ('default', 'amr', 'noop', 'custom'):
            for op in (0, 1):
                tree(m, 2, False, 1800, (op,))
            for ops in OPS2:
                tree(m, 3, True, 1800, ops)
        for ops in OPS2:
            for r0 in range(4):
                obs.append({
                    'name': f'E2 reading model=default n=3 small=False '
                            f'ops={ops} i0_r={r0}', 'kind': 'e2',
                    'fn': 'h_reading',
                    'fixed': {'model': 'default', 'n': 3, 'small': False,
                              'i0_op': ops[0], 'i1_op': ops[1], 'i0_r': r0},
                    'timeout': 1800, 'bound': '<= 3 branches'})
        leaf('h_atom_alignment', 1800, ['tilde-in-string', 'aligned'],
             quoted=True, maxlen=4)
        leaf('h_atom_alignment', 1800, ['aligned'], quoted=False, maxlen=4)
        for m in ('default', 'noop', 'custom'):
            leaf('h_role_alignment', 1800, maxlen=5 if m == 'noop' else 4,
                 model=m)
    return obs


LEVEL_TEXT = ('Bounded model checking: the real interpret() is executed on '
              'every tree up to the branch bound (ill-formed ones included, '
              'four models) and compared with an independent reference '
              'interpretation written from the documentation; alignment '
              'splitting is executed on symbolic atom/role text.')
LEVEL_NOTE = ('Bounded by branch count, catalogues and leaf text length; '
              'trusted: CrossHair/z3, the reference interpretation (mine, '
              'from docs/notation.rst and docs/structures.rst); every path '
              're-validated natively.')
TECHNIQUE = ('CrossHair/z3 bounded symbolic execution of interpret() and the '
             'alignment splitters vs a reference interpretation')
