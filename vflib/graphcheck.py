"""Shared oracle for 'encode then decode gives the same graph'."""

from __future__ import annotations

from vflib.engine import Violation, require
from vflib.oracles import weakly_connected, written_form


def norm_triples(triples, variables, ref):
    """Triples up to the model's single deinversion (an inverted role whose
    target is a variable is read as the swapped, deinverted triple);
    constants by written form."""
    out = []
    for s, r, t in triples:
        if (r != ':instance' and ref.deinverts and ref.is_inverted(r)
                and isinstance(t, str) and t in variables):
            out.append((t, ref.invert_role(r), s))
        elif isinstance(t, str) and t in variables and r != ':instance':
            out.append((s, r, t))
        else:
            out.append((s, r, ('const', written_form(t))))
    return sorted(out, key=repr)


def same_content(triples, top, g2, ref, context):
    """g2 (decoded) has the requested top, the same variables and the same
    triples up to deinversion; nothing dropped, duplicated, re-targeted or
    changed between edge and attribute."""
    variables = set(s for s, _, _ in triples)
    require(g2.top == top, 'top differs after encode/decode', context,
            g2.top, top)
    require(g2.variables() == variables, 'variables differ', context,
            g2.variables(), variables)
    a = norm_triples(triples, variables, ref)
    b = norm_triples(g2.triples, variables, ref)
    require(a == b, 'triples differ after encode/decode', context,
            g2.triples)


def encode_decode(g, top, real, ref, triples, context):
    import penman
    try:
        s = penman.encode(g, top=top, model=real)
    except Exception as exc:
        raise Violation(f'encode raised {type(exc).__name__}: {exc}',
                        context)
    try:
        g2 = penman.decode(s, model=real)
    except Exception as exc:
        raise Violation(f'decode(encode(g)) raised {type(exc).__name__}: '
                        f'{exc}', context, s)
    same_content(triples, top if top is not None else g.top, g2, ref,
                 (context, s))
    return s


def is_connected(triples, top):
    variables = set(s for s, _, _ in triples)
    return weakly_connected(variables, triples, top)
