#!/bin/sh
# Build the overlay venv used by every check (offline; wheels from /opt/veriftools/wheels).
set -e
cd "$(dirname "$0")"
V=.venv
if [ ! -x "$V/bin/python" ] || ! "$V/bin/python" -c "import crosshair, z3" 2>/dev/null; then
    rm -rf "$V"
    /venv/bin/python -m venv "$V"
    SP=$("$V/bin/python" -c "import sysconfig; print(sysconfig.get_paths()['purelib'])")
    printf '/venv/lib/python3.12/site-packages\n' > "$SP/verif_overlay.pth"
    PIP_NO_INDEX=1 "$V/bin/pip" install -q --no-index --find-links /opt/veriftools/wheels crosshair-tool z3-solver >/dev/null
fi
"$V/bin/python" -c "import crosshair, z3; print('verif venv ok: crosshair', crosshair.__version__, 'z3', z3.get_version_string())"
